"""Second engine (CrossHair 0.0.110): PEP316 contracts over the REAL storage classes, symbolic ints / lists.
A confirmation here is corroboration only; the symx verdict decides (DESIGN 1.9)."""
from typing import List

import ixai.storage.geometric_reservoir_storage as geo_mod
from ixai.storage import IntervalStorage, GeometricReservoirStorage, BatchStorage


def interval_keeps_last_k(size: int, xs: List[int]) -> bool:
    """
    pre: 1 <= size <= 4
    pre: len(xs) <= 6
    post: _
    """
    st = IntervalStorage(size=size, store_targets=True)
    for i, v in enumerate(xs):
        st.update({'v': v}, i)
    got = [r['v'] for r in st.get_data()[0]]
    ys = list(st.get_data()[1])
    n = len(xs)
    lo = max(0, n - size)
    return got == xs[lo:] and ys == list(range(lo, n)) and len(st) == min(n, size)


def batch_keeps_everything(xs: List[int], store_targets: bool) -> bool:
    """
    pre: len(xs) <= 6
    post: _
    """
    st = BatchStorage(store_targets=store_targets)
    for i, v in enumerate(xs):
        st.update({'v': v}, i)
    got = [r['v'] for r in st.get_data()[0]]
    ys = list(st.get_data()[1])
    return got == xs and ys == (list(range(len(xs))) if store_targets else [])


class _Scripted:
    def __init__(self, accept: List[bool], slots: List[int], size: int):
        self.accept, self.slots, self.size = list(accept), list(slots), size

    def random(self) -> float:
        a = self.accept.pop(0) if self.accept else False
        return 0.0 if a else 2.0          # accept: below any probability in [0,1]; reject: above

    def randrange(self, n: int) -> int:
        s = self.slots.pop(0) if self.slots else 0
        return s % n


def geometric_targets_aligned(size: int, n: int, accept: List[bool], slots: List[int]) -> bool:
    """
    pre: 1 <= size <= 3
    pre: 0 <= n <= 5
    pre: len(accept) <= 5 and len(slots) <= 5
    pre: all(0 <= s <= 4 for s in slots)
    post: _
    """
    saved = geo_mod.random
    geo_mod.random = _Scripted(accept, slots, size)
    try:
        st = GeometricReservoirStorage(size=size, constant_probability=0.5, store_targets=True)
        for i in range(n):
            st.update({'v': i}, i)
        xs = [r['v'] for r in st.get_data()[0]]
        ys = list(st.get_data()[1])
    finally:
        geo_mod.random = saved
    return xs == ys and len(xs) == min(n, size) and len(set(xs)) == len(xs) and all(0 <= v < n for v in xs)
