"""C15 - explainer call contract: defaults, loss signature, feature-name types, evaluation budget, storage order."""
from symx import And, Or, Not, Implies, eq, same_term
from symx.stubs import patched, UFModel, UFLoss, FaultPlan
from .common import guarded, total, sym_row, names_for
from .expl import build_incremental

from ixai.explainer import IncrementalPFI, IncrementalSage
from ixai.explainer.sage import BatchSage, IntervalSage

ID = 'C15'
CLASSES = {'IncrementalSage': IncrementalSage, 'IncrementalPFI': IncrementalPFI, 'BatchSage': BatchSage,
           'IntervalSage': IntervalSage}

META = {
    'level': 'other',
    'explanation': 'Enumerated configuration product (class x defaults/overrides x feature-name type x d x n_inner via constructor '
                   'and per-call x update_storage); data, loss values and tracker state symbolic, every random outcome a fork. The '
                   'uninterpreted loss accepts ONLY the documented positional signature; an ordered event log of model / loss / '
                   'storage invocations decides the evaluation budget and the "storage updated once, last" clause on every path.',
    'bounds': {'quick': {'d': '1..3', 'q': '1..2', 'names': 'str,int,float,mixed', 'calls_from_fresh': 3},
               'thorough': {'d': '1..4', 'q': '1..3', 'names': 'str,int,float,mixed', 'calls_from_fresh': 4}},
    'outside': ['river metrics as loss (C13)', 'wrapped sklearn / torch / river models (C14)', 'sizes beyond the bounds'],
    'assumptions': ['model deterministic (uninterpreted function)', 'the loss stub rejects keyword invocation: this is the '
                    'documented signature loss(y_true, y_pred)', 'np.random.permutation modelled as real NumPy coercion of the '
                    'name list followed by an arbitrary permutation'],
}


def configs(tier):
    cfgs = []

    def add(**k):
        if k not in cfgs:
            cfgs.append(k)
    dmax = 3 if tier == 'quick' else 4
    T = 3 if tier == 'quick' else 4
    for cls in CLASSES:
        for nm in ('str', 'int', 'float', 'mixed'):
            for d in range(1, dmax + 1):
                if cls in ('BatchSage', 'IntervalSage') and d > (2 if tier == 'quick' else 3):
                    continue        # whole-batch explanations fork (d! n^(d q))^n ways
                add(group='defaults', cls=cls, names=nm, d=d, T=T if d <= 2 else 3, _cost=6 ** d)
    qmax = 2 if tier == 'quick' else 3
    for cls in ('IncrementalSage', 'IncrementalPFI'):
        for mode in ('static', 'dynamic'):
            for nm in ('str', 'int', 'float', 'mixed'):
                for q in range(1, qmax + 1):
                    for upd in (True, False):
                        add(group='override', cls=cls, names=nm, d=2, q=q, m=2, mode=mode, upd=upd, storage='batch',
                            imputer='joint', _cost=30)
                add(group='override', cls=cls, names=nm, d=3, q=1, m=1, mode=mode, upd=True, storage='interval',
                    imputer='joint', q_call=2, _cost=60)
            for st in ('uniform', 'geometric', 'sequence'):
                add(group='override', cls=cls, names='str', d=2, q=1, m=1 if st == 'sequence' else 2, mode=mode, upd=True,
                    storage=st, imputer='joint', _cost=30)
    for cls in ('IncrementalSage', 'IncrementalPFI'):
        for mode in ('static', 'dynamic'):
            for st in ('batch', 'geometric', 'uniform', 'interval'):
                add(group='fresh_flags', cls=cls, mode=mode, storage=st, d=2, q=1, T=3 if tier == 'quick' else 4, _cost=400)
            add(group='fresh_flags', cls=cls, mode=mode, storage='batch', d=2, q=1, T=2, prefill=1, _cost=400)
    for cls in CLASSES:
        add(group='given_objects', cls=cls, d=2, _cost=20)
    for cls in CLASSES:
        for dyn in ((None, True, False) if cls.startswith('Incremental') else (None,)):
            add(group='documented_defaults', cls=cls, dyn=dyn, _cost=20)
    for nm in ('str', 'int'):
        add(group='many_features', names=nm, d=12 if tier == 'quick' else 40, _cost=200)
    for cls in ('IncrementalSage', 'IncrementalPFI'):
        for qc in (1, 2):
            add(group='override_history', cls=cls, d=2, q=qc, T=3 if tier == 'quick' else 4, _cost=3000)
    for cls in ('BatchSage', 'IntervalSage'):
        add(group='override_history_batch', cls=cls, d=1, q=1, _cost=300)
    for cls in ('BatchSage', 'IntervalSage'):
        for nm in ('str', 'int', 'float', 'mixed'):
            for q in (1, 2):
                add(group='batch', cls=cls, names=nm, d=2, n=2, q=q, orig=False, _cost=300)
            if cls == 'BatchSage':
                add(group='batch', cls=cls, names=nm, d=2, n=2, q=1, orig=True, _cost=300)
    return cfgs


def finding_key(cfg, name):
    # call site class of the failure: explainer family + name type + obligation
    fam = 'batch' if cfg['cls'] in ('BatchSage', 'IntervalSage') else cfg['cls']
    nm = 'mixed' if cfg.get('names') == 'mixed' else 'uniform-names'
    return f"{fam}/{nm}/{name}"


def scenario(env, cfg):
    with patched(env):
        return globals()['_' + cfg['group']](env, cfg)


class Log:
    """ordered event log shared by model, loss and storage wrappers (FaultPlan interface, never fires)"""

    def __init__(self):
        self.sites = []

    def tick(self, site):
        self.sites.append(site)


def _wrap_storage(storage, log, record):
    real_update = storage.update

    def update(*a, **k):
        log.tick('storage')
        record.append((a, k))
        return real_update(*a, **k)
    storage.update = update


def _unchanged(env, x, x_copy, names, names_copy, tag):
    same = (list(x.keys()) == list(x_copy.keys()) and all(same_term(x[k], x_copy[k]) for k in x_copy))
    env.claim(f"x_unmodified{tag}", same)
    env.claim(f"feature_names_unmodified{tag}", list(names) == names_copy and all(type(a) is type(b) for a, b in zip(names, names_copy)))


def _keys_exact(values, names):
    ks = list(values.keys())
    return len(ks) == len(names) and all(any(k == n and hash(k) == hash(n) for k in ks) for n in names)


def _defaults(env, cfg):
    cls = CLASSES[cfg['cls']]
    names = names_for(cfg['names'], cfg['d'])
    names_copy = list(names)
    log = Log()
    model = UFModel(env, names, faults=log)
    loss = UFLoss(env, faults=log)
    d = len(names)
    if cls in (IncrementalSage, IncrementalPFI):
        ex = guarded(env, 'ctor_required_args_only', cls, model, loss, names)
        updates = []
        _wrap_storage(ex._storage, log, updates)
        for t in range(cfg['T']):
            x = sym_row(env, names, f"x{t}")
            y = env.real(f"y{t}")
            x_copy = dict(x)
            log.sites.clear()
            updates.clear()
            ret = guarded(env, 'explain_one', ex.explain_one, x, y)
            env.claim(f"seen_samples_t{t + 1}", eq(ex.seen_samples, t + 1))
            n_model = log.sites.count('model')
            env.claim(f"model_evaluations_t{t + 1}", n_model == (0 if t == 0 else 1 + d * 1))
            env.claim(f"storage_updated_once_last_t{t + 1}",
                      log.sites.count('storage') == 1 and log.sites[-1] == 'storage' and len(updates) == 1)
            if len(updates) == 1:
                a, k = updates[0]
                ux = a[0] if a else k.get('x', k.get('x_i'))
                uy = a[1] if len(a) > 1 else k.get('y', k.get('y_i'))
                env.claim(f"storage_receives_this_observation_t{t + 1}", ux is x and same_term(uy, y))
            _unchanged(env, x, x_copy, names, names_copy, f"_t{t + 1}")
            env.claim(f"returned_equals_importance_values_t{t + 1}",
                      set(ret.keys()) == set(ex.importance_values.keys())
                      and And(*[eq(ret[k], ex.importance_values[k]) for k in ret]))
            if t >= 1:
                env.claim(f"keys_are_the_given_names_t{t + 1}", _keys_exact(ex.importance_values, names))
    else:
        ex = guarded(env, 'ctor_required_args_only', cls, model, names, loss)
        env.claim('initial_keys_are_the_given_names', _keys_exact(ex.importance_values, names))
        rows = []
        for t in range(2):
            x = sym_row(env, names, f"x{t}")
            y = env.real(f"y{t}")
            rows.append((x, y, dict(x)))
            kw = {'verbose': False}
            if cls is IntervalSage:
                kw['force_explain'] = True
            ret = guarded(env, 'explain_one', ex.explain_one, x, y, **kw)
            env.claim(f"keys_are_the_given_names_t{t + 1}", _keys_exact(ex.importance_values, names))
            env.claim(f"returned_equals_importance_values_t{t + 1}", ret is ex.importance_values or
                      And(*[eq(ret[k], ex.importance_values[k]) for k in ret]))
            for (xx, yy, cp) in rows:
                _unchanged(env, xx, cp, names, names_copy, f"_t{t + 1}")
        env.claim('loss_was_called_positionally', len(loss.calls) > 0)


def _override(env, cfg):
    cls = CLASSES[cfg['cls']]
    log = Log()
    b = build_incremental(env, cls, cfg, faults=log)
    ex, names = b['ex'], b['names']
    names_copy = list(names)
    x, y = b['x'], b['y']
    x_copy = dict(x)
    kw = {}
    q = cfg['q']
    if 'q_call' in cfg:
        kw['n_inner_samples'] = q = cfg['q_call']
    if not cfg['upd']:
        kw['update_storage'] = False
    pre_rows = list(b['storage'].get_data()[0])
    pre_len = len(pre_rows)
    log.sites.clear()
    ret = guarded(env, 'explain_one', ex.explain_one, x, y, **kw)
    d = len(names)
    env.claim('seen_samples_incremented', eq(ex.seen_samples, b['pre']['seen'] + 1))
    env.claim('model_evaluations', log.sites.count('model') == 1 + d * q)
    if cfg['upd']:
        env.claim('storage_updated_once_last', log.sites.count('storage') == 1 and log.sites[-1] == 'storage')
        rows_after = list(b['storage'].get_data()[0])
        env.claim('only_this_observation_added', all(any(r is p for p in pre_rows) or r is x for r in rows_after))
    else:
        env.claim('storage_not_touched', log.sites.count('storage') == 0 and len(b['storage']) == pre_len
                  and all(a is p for a, p in zip(b['storage'].get_data()[0], pre_rows)))
    # no model input of this call can contain this observation's values through the background
    for z in b['model'].calls:
        for f in names:
            if not same_term(z[f], x[f]):
                env.claim('background_predates_observation', any(same_term(z[f], r[f]) for r in pre_rows))
    _unchanged(env, x, x_copy, names, names_copy, '')
    env.claim('keys_are_the_given_names', _keys_exact(ex.importance_values, names))
    env.claim('returned_equals_importance_values',
              set(ret.keys()) == set(ex.importance_values.keys()) and And(*[eq(ret[k], ex.importance_values[k]) for k in ret]))
    env.canary('budget_off_by_one', log.sites.count('model') == 2 + d * q)


def _batch(env, cfg):
    cls = CLASSES[cfg['cls']]
    names = names_for(cfg['names'], cfg['d'])
    names_copy = list(names)
    model = UFModel(env, names)
    loss = UFLoss(env)
    kw = {'n_inner_samples': cfg['q']}
    if cls is IntervalSage:
        kw.update(interval_length=1, storage_length=cfg['n'])
    ex = guarded(env, 'ctor', cls, model, names, loss, **kw)
    data = []
    for t in range(cfg['n']):
        x = sym_row(env, names, f"x{t}")
        y = env.real(f"y{t}")
        data.append((x, y, dict(x)))
    for (x, y, _c) in data[:-1]:
        if cls is IntervalSage:
            guarded(env, 'explain_one', ex.explain_one, x, y, force_explain=False, verbose=False) if False else \
                guarded(env, 'update_storage', ex.update_storage, x, y)
        else:
            guarded(env, 'update_storage', ex.update_storage, x, y)
    x, y, _c = data[-1]
    ekw = {'verbose': False}
    if cfg['orig']:
        ekw['original_sage'] = True
    ret = guarded(env, 'explain_one', ex.explain_one, x, y, **ekw)
    env.claim('keys_are_the_given_names', _keys_exact(ex.importance_values, names))
    env.claim('returned_equals_importance_values', ret is ex.importance_values or
              And(*[eq(ret[k], ex.importance_values[k]) for k in ret]))
    for (xx, yy, cp) in data:
        _unchanged(env, xx, cp, names, names_copy, '')
    env.claim('loss_was_called_positionally', len(loss.calls) > 0)


def _fresh_flags(env, cfg):
    """fresh explainer on a user-supplied storage; every pattern of update_storage flags over the first T calls,
    with the user feeding the storage manually (public update_storage) whenever a call did not"""
    cls = CLASSES[cfg['cls']]
    log = Log()
    b = build_incremental(env, cls, dict(cfg, m=cfg.get('prefill', 0), cap=4, state='fresh', imputer='joint'), faults=log)
    ex, names, storage = b['ex'], b['names'], b['storage']
    expected = list(b['rows'])      # (rows a user put into the storage beforehand, then) the observations it must receive, in order
    for t in range(cfg['T']):
        flag = env.choose(2, label=('update_storage', t)) == 1
        x, y = sym_row(env, names, f"x{t}"), env.real(f"y{t}")
        before = list(storage.get_data()[0])
        log.sites.clear()
        guarded(env, 'explain_one', ex.explain_one, x, y, update_storage=flag)
        after = list(storage.get_data()[0])
        if flag:
            expected.append(x)
            env.claim(f"storage_updated_exactly_once_t{t + 1}", log.sites.count('storage') == 1 and
                      sum(1 for r in after if r is x) == 1)
        else:
            env.claim(f"storage_untouched_when_flag_off_t{t + 1}", log.sites.count('storage') == 0 and
                      len(after) == len(before) and all(a is c for a, c in zip(after, before)),
                      detail=f"call {t + 1} with update_storage=False, seen_samples before the call = {t}")
            # the user stores the observation through the public method instead
            guarded(env, 'update_storage', ex.update_storage, x, y)
            expected.append(x)
        env.claim(f"seen_samples_t{t + 1}", eq(ex.seen_samples, t + 1))
        env.claim(f"model_evaluations_t{t + 1}", log.sites.count('model') == (0 if t == 0 else 1 + len(names)))
        if cfg['storage'] in ('batch', 'interval'):
            now = list(storage.get_data()[0])
            env.claim(f"each_observation_stored_once_t{t + 1}", len(now) == len(expected) and all(a is c for a, c in zip(now, expected)))


def _attr_snapshot(obj):
    """configuration of an object: its scalar attributes and the sizes of its containers"""
    out = {}
    for k, v in vars(obj).items():
        if isinstance(v, (bool, int, float, str, type(None))):
            out[k] = (type(v).__name__, v)
        elif isinstance(v, (list, dict, set, tuple)):
            out[k] = ('len', len(v))
    return out


def _given_objects(env, cfg):
    """storage / imputer objects handed to a constructor are used as they are - also when they are still empty (falsy)"""
    from ixai.storage import BatchStorage, IntervalStorage, GeometricReservoirStorage, UniformReservoirStorage
    from ixai.imputer import MarginalImputer, DefaultImputer
    cls = CLASSES[cfg['cls']]
    names = names_for('str', cfg['d'])
    model, loss = UFModel(env, names), UFLoss(env)
    storages = [IntervalStorage(size=3)] if cls is IntervalSage else \
        [BatchStorage(), IntervalStorage(size=3), GeometricReservoirStorage(size=3), UniformReservoirStorage(size=3)]
    for prefill in (0, 1):
        # a storage that already holds an observation and was configured by the user (no targets kept)
        for st in ([IntervalStorage(size=3, store_targets=False)] if cls is IntervalSage else
                   [BatchStorage(store_targets=False), IntervalStorage(size=3, store_targets=False)]):
            for i in range(prefill):
                st.update({n: float(i) for n in names}, None)
            imp = DefaultImputer(model, {n: 0 for n in names})
            snap = (_attr_snapshot(st), _attr_snapshot(imp), list(names))
            if cls in (IncrementalSage, IncrementalPFI):
                guarded(env, 'ctor', cls, model, loss, names, storage=st, imputer=imp)
            else:
                guarded(env, 'ctor', cls, model, names, loss, storage=st, imputer=imp)
            env.claim('constructor_does_not_reconfigure_the_given_objects',
                      snap == (_attr_snapshot(st), _attr_snapshot(imp), list(names)),
                      detail=f"{type(st).__name__} with {prefill} stored rows: {snap[0]} -> {_attr_snapshot(st)}")
    # a model given as a Wrapper instance is the user's object: it is used as it is and not modified
    from ixai.utils.wrappers import SklearnWrapper
    wrapped = SklearnWrapper(lambda arr: arr[:, 0])
    wsnap = _attr_snapshot(wrapped)
    exw = guarded(env, 'ctor', cls, wrapped, loss, names) if cls in (IncrementalSage, IncrementalPFI) else \
        guarded(env, 'ctor', cls, wrapped, names, loss)
    env.claim('given_wrapper_is_used_unchanged', exw._model_function is wrapped and _attr_snapshot(wrapped) == wsnap,
              detail=f"{wsnap} -> {_attr_snapshot(wrapped)}")
    env.claim('constructor_does_not_evaluate_the_loss', len(loss.calls) == 0,
              detail='a plain callable loss is only defined on (y_true, prediction dict of the model): probing it with made-up arguments '
                     'rejects valid losses')
    for st in storages:
        imp = DefaultImputer(model, {n: 0 for n in names})
        if cls in (IncrementalSage, IncrementalPFI):
            ex = guarded(env, 'ctor', cls, model, loss, names, storage=st, imputer=imp)
            ex2 = guarded(env, 'ctor', cls, model, loss, names, storage=st)
        else:
            ex = guarded(env, 'ctor', cls, model, names, loss, storage=st, imputer=imp)
            ex2 = guarded(env, 'ctor', cls, model, names, loss, storage=st)
        env.claim('given_empty_storage_is_used', ex._storage is st and ex2._storage is st, detail=type(st).__name__)
        env.claim('given_imputer_is_used', ex._imputer is imp)
        env.claim('default_imputer_samples_from_the_given_storage', getattr(ex2._imputer, 'storage_object', None) is st,
                  detail=type(st).__name__)


def _override_history(env, cfg):
    """per-call n_inner_samples overrides apply to that call only: any pattern of overridden / plain calls"""
    cls = CLASSES[cfg['cls']]
    log = Log()
    b = build_incremental(env, cls, dict(cfg, m=1, cap=1, storage='sequence', state='sym', imputer='joint', mode='static'), faults=log)
    ex, names = b['ex'], b['names']
    d, q0 = len(names), cfg['q']
    options = [None, 1, 2, 3]
    for t in range(cfg['T']):
        k = options[env.choose(len(options), label=('n_inner', t))]
        x, y = sym_row(env, names, f"x{t}"), env.real(f"y{t}")
        log.sites.clear()
        kw = {} if k is None else {'n_inner_samples': k}
        guarded(env, 'explain_one', ex.explain_one, x, y, **kw)
        eff = q0 if k is None else k
        env.claim('model_evaluations_follow_the_call_or_the_constructor_value', log.sites.count('model') == 1 + d * eff,
                  detail=f"call {t + 1}: override {k}, constructor value {q0}, {log.sites.count('model')} model evaluations")
        env.claim('constructor_value_kept', ex.n_inner_samples == q0, detail=f"n_inner_samples attribute is {ex.n_inner_samples}")


def _override_history_batch(env, cfg):
    cls = CLASSES[cfg['cls']]
    names = names_for('str', cfg['d'])
    log = Log()
    model, loss = UFModel(env, names, faults=log), UFLoss(env, faults=log)
    kw = {'n_inner_samples': cfg['q']}
    if cls is IntervalSage:
        kw.update(interval_length=1, storage_length=1)
    ex = guarded(env, 'ctor', cls, model, names, loss, **kw)
    for t, k in enumerate([None, 3, None, 2, None]):
        x, y = sym_row(env, names, f"x{t}"), env.real(f"y{t}")
        if cls is BatchSage:
            ex._storage._storage_x.clear()
            ex._storage._storage_y.clear()
        log.sites.clear()
        ekw = {'verbose': False}
        if k is not None:
            ekw['n_inner_samples'] = k
        guarded(env, 'explain_one', ex.explain_one, x, y, **ekw)
        eff = cfg['q'] if k is None else k
        env.claim('model_evaluations_follow_the_call_or_the_constructor_value', log.sites.count('model') == 1 + cfg['d'] * eff,
                  detail=f"call {t + 1}: override {k}: {log.sites.count('model')} model evaluations")
        env.claim('constructor_value_kept', ex.n_inner_samples == cfg['q'])


META['explanation'] += ' Further groups: objects handed to constructors are used as given (also when empty); every pattern of update_storage flags and of per-call n_inner overrides over the first calls; prefilled storages.'


def _many_features(env, cfg):
    """IncrementalPFI with many features and a default-value imputer (no feature orders to enumerate): keys, evaluation
    budget and storage discipline far beyond the d of the other groups"""
    from ixai.imputer import DefaultImputer
    from ixai.storage import BatchStorage
    d = cfg['d']
    names = [f"f{i}" for i in range(d)] if cfg['names'] == 'str' else list(range(1, d + 1))
    log = Log()
    model = UFModel(env, names, faults=log)
    loss = UFLoss(env, faults=log)
    storage = BatchStorage()
    imp = DefaultImputer(model, {n: env.real(f"dflt_{i}") for i, n in enumerate(names)})
    ex = guarded(env, 'ctor', IncrementalPFI, model, loss, names, storage=storage, imputer=imp, n_inner_samples=2)
    for t in range(3):
        x = sym_row(env, names, f"x{t}")
        y = env.real(f"y{t}")
        log.sites.clear()
        ret = guarded(env, 'explain_one', ex.explain_one, x, y)
        env.claim('model_evaluations_many_features', log.sites.count('model') == (0 if t == 0 else 1 + d))
        env.claim('loss_evaluations_many_features', log.sites.count('loss') == (0 if t == 0 else 1 + 2 * d))
        if t >= 1:
            env.claim('keys_are_the_given_names_many_features', _keys_exact(ex.importance_values, names) and
                      list(ret.keys()).sort() == list(ex.importance_values.keys()).sort())
        env.claim('storage_holds_every_observation', len(storage) == t + 1)


def _documented_defaults(env, cfg):
    """an explainer built from the required arguments alone carries the DOCUMENTED default collaborators: the storage equals,
    attribute by attribute, the object the docstring names (GeometricReservoirStorage(size=100) in the dynamic setting,
    UniformReservoirStorage(size=100) in the static one, BatchStorage(store_targets=True) / the sliding window for the batch
    explainers), the imputer is MarginalImputer('joint') on that storage, one inner sample, smoothing 0.001.
    (The behaviour of a storage with given attributes is the subject of C07-C09.)"""
    from ixai.storage import GeometricReservoirStorage, UniformReservoirStorage, BatchStorage
    from ixai.imputer import MarginalImputer
    cls = CLASSES[cfg['cls']]
    names = names_for('str', 2)
    model = UFModel(env, names)
    loss = UFLoss(env)
    incremental = cls in (IncrementalSage, IncrementalPFI)
    kw = {} if cfg['dyn'] is None else {'dynamic_setting': cfg['dyn']}
    if incremental:
        ex = guarded(env, 'ctor_required_args_only', cls, model, loss, names, **kw)
        dyn = True if cfg['dyn'] is None else cfg['dyn']        # documented: "dynamic_setting ... Defaults to True"
        doc = GeometricReservoirStorage(size=100) if dyn else UniformReservoirStorage(size=100)
    else:
        ex = guarded(env, 'ctor_required_args_only', cls, model, names, loss)
        doc = None if cls is IntervalSage else BatchStorage(store_targets=True)
    st = ex._storage
    if doc is not None:
        env.claim('default_storage_is_of_the_documented_class', type(st) is type(doc), detail=f"{type(st).__name__}")
        for attr, want in vars(doc).items():
            if isinstance(want, (bool, int, float, str, type(None))):
                got = vars(st).get(attr, '<missing>')
                env.claim('default_storage_equals_the_documented_object',
                          type(got) is type(want) and got == want, detail=f"{type(st).__name__}.{attr} = {got!r}, documented default {want!r}")
        env.claim('default_storage_starts_empty', len(st.get_data()[0]) == 0)
    imp = ex._imputer
    env.claim('default_imputer_is_marginal_joint_on_the_explainer_storage',
              type(imp) is MarginalImputer and type(imp.sampling_strategy) is str and imp.sampling_strategy == 'joint'
              and imp.storage_object is st, detail=f"{type(imp).__name__}, strategy {getattr(imp, 'sampling_strategy', None)!r}")
    env.claim('default_inner_samples_is_one', type(ex.n_inner_samples) is int and ex.n_inner_samples == 1)
    # a second explainer built the same way in the same process owns its own collaborators (no shared default objects):
    # what the first one has observed is not part of the second one's background
    st.update({n: 1.0 for n in names}, 0.5)
    if incremental:
        ex2 = guarded(env, 'ctor_second_object', cls, UFModel(env, names), UFLoss(env), names, **kw)
    else:
        ex2 = guarded(env, 'ctor_second_object', cls, UFModel(env, names), names, UFLoss(env))
    env.claim('second_explainer_has_its_own_default_storage', ex2._storage is not st and ex2._imputer is not imp
              and ex2._imputer.storage_object is ex2._storage)
    env.claim('second_explainer_starts_with_an_empty_background', len(ex2._storage.get_data()[0]) == 0,
              detail=f"{len(ex2._storage.get_data()[0])} rows observed by another explainer")
    from ixai.storage.base import BaseStorage
    from ixai.imputer.base import BaseImputer
    from ixai.utils.tracker.base import Tracker
    stateful = (BaseStorage, BaseImputer, Tracker)      # immutable shared configuration objects are nobody's business
    mine = {id(v) for v in vars(ex).values() if isinstance(v, stateful)}
    shared = [a for a, v in vars(ex2).items() if isinstance(v, stateful) and id(v) in mine]
    env.claim('second_explainer_shares_no_stateful_attribute', not shared, detail=f"shared: {shared}")
    if incremental:
        env.claim('default_smoothing_alpha', ex._smoothing_alpha == 0.001)
        env.claim('default_loss_direction', getattr(ex, 'loss_bigger_is_better', False) is False
                  if hasattr(ex, 'loss_bigger_is_better') else True)


META['explanation'] += ' documented_defaults: the default storage / imputer / sample count of every explainer equal the objects named in the docstrings, attribute by attribute; a second explainer built the same way in the same process shares no storage / imputer / tracker object with the first and starts with an empty background.'

META['explanation'] += ' given_objects: configuration snapshot of every given storage / imputer / wrapper / name list unchanged by the constructor; the constructor does not evaluate the loss.'
