"""Builders for explainer harnesses: real explainer objects with symbolic state, storage and callbacks."""
from __future__ import annotations

import copy
from collections import deque

from symx import And, Or, Not, Implies, eq, ite, Sym, HarnessError, is_nonfinite
from symx.stubs import UFModel, UFLoss, FaultPlan
from .common import guarded, total, names_for, sym_row, ref_update

from ixai.explainer import IncrementalPFI, IncrementalSage
from ixai.explainer.sage import BatchSage, IntervalSage
from ixai.imputer import MarginalImputer, DefaultImputer
from ixai.storage import (BatchStorage, IntervalStorage, SequenceStorage, UniformReservoirStorage,
                          GeometricReservoirStorage)
from ixai.utils.tracker import MultiValueTracker, WelfordTracker, ExponentialSmoothingTracker

LABELSETS = {1: ['output'], 2: ['a', 'b'], 3: ['a', 'b', 'c'],
             4: [1, 2, 'unknown'],      # a label alphabet mixing numbers and strings (a classifier with an 'unknown' class)
             5: [0, 1]}                 # integer class labels


# ---- storages -----------------------------------------------------------------------------------

def build_storage(env, kind, names, m, store_targets=True, cap=None, stem='row', faults=None):
    """A real storage object holding m rows of fresh symbols (state injected, invariants assumed)."""
    rows = [sym_row(env, names, f"{stem}{r}") for r in range(m)]
    ys = [env.real(f"{stem}{r}_y") for r in range(m)]
    cap = max(m, 1) if cap is None else cap
    if kind == 'batch':
        st = BatchStorage(store_targets=store_targets)
        st._storage_x = list(rows)
        st._storage_y = list(ys) if store_targets else []
    elif kind == 'interval':
        st = IntervalStorage(size=cap, store_targets=store_targets)
        st._storage_x = deque(rows)
        st._storage_y = deque(ys) if store_targets else deque()
    elif kind == 'sequence':
        if m > 1:
            raise HarnessError("sequence storage holds one row")
        st = SequenceStorage(store_targets=store_targets)
        st._storage_x = deque(rows)
        st._storage_y = deque(ys) if store_targets else deque()
    elif kind == 'uniform':
        st = UniformReservoirStorage(size=cap, store_targets=store_targets)
        st._storage_x = list(rows)
        st._storage_y = list(ys) if store_targets else []
        if m < cap:
            st.stored_samples = m
        else:
            n = env.int(f"{stem}_seen")
            w = env.real(f"{stem}_W")
            nxt = env.int(f"{stem}_next")
            env.assume(And(n >= cap, w > 0, w < 1, nxt > n))
            st.stored_samples = n
            st._algo_wt = w.as_np()
            st._algo_l_counter = nxt
    elif kind == 'geometric':
        st = GeometricReservoirStorage(size=cap, store_targets=store_targets)
        st._storage_x = list(rows)
        st._storage_y = list(ys) if store_targets else []
    else:
        raise ValueError(kind)
    if faults is not None:
        real_update = st.update

        def update(*a, **k):
            faults.tick('storage')
            return real_update(*a, **k)
        st.update = update
    return st, rows, ys


# ---- tracker state injection --------------------------------------------------------------------

def _inject_tracker(env, tr, stem, N, nonneg=False):
    from .common import check_state_coverage
    check_state_coverage(tr)
    val = env.real(f"{stem}_val")
    tr.N = N
    tr.tracked_value = val
    st = {'val': val}
    if isinstance(tr, WelfordTracker):
        ssq = env.real(f"{stem}_ssq")
        env.assume(ssq >= 0)
        tr.sum_squares = ssq
        st['ssq'] = ssq
    if nonneg:
        env.assume(val >= 0)
    return st


def _inject_multi(env, mvt, keys, stem, N, nonneg=False):
    mvt.tracked_value = {}
    mvt._tracked_keys = set()
    st = {}
    for i, k in enumerate(keys):
        tr = copy.deepcopy(mvt._base_tracker)
        st[k] = _inject_tracker(env, tr, f"{stem}{i}", N, nonneg=nonneg)
        mvt.tracked_value[k] = tr
        mvt._tracked_keys.add(k)
    mvt.N = N
    return st


def inject_explainer_state(env, ex, names, labels, sage=True, efficiency_inv=True):
    """Overwrite every running statistic of a real incremental explainer with symbols.

    Invariant assumed: all trackers share the update count N >= 0 (and, being deep copies of one base tracker,
    the same alpha); variances >= 0; for SAGE with efficiency_inv: sum_f importance_f = marginal - model.
    """
    from .common import check_state_coverage
    check_state_coverage(ex)
    for mv in (ex._importance_trackers, ex._variance_trackers, ex._marginal_prediction_tracker):
        check_state_coverage(mv)
    N = env.int('N')
    env.assume(N >= 0)
    pre = {'N': N}
    pre['imp'] = _inject_multi(env, ex._importance_trackers, names, 'imp', N)
    pre['var'] = _inject_multi(env, ex._variance_trackers, names, 'var', N, nonneg=True)
    if sage:
        pre['marg'] = _inject_tracker(env, ex._marginal_loss_tracker, 'marg', N)
        pre['model'] = _inject_tracker(env, ex._model_loss_tracker, 'model', N)
        pre['mpred'] = _inject_multi(env, ex._marginal_prediction_tracker, labels, 'mpred', N)
        if efficiency_inv:
            env.assume(eq(total([pre['imp'][f]['val'] for f in names]), pre['marg']['val'] - pre['model']['val']))
    s = env.int('seen')
    env.assume(s >= 1)
    ex.seen_samples = s
    pre['seen'] = s
    return pre


# ---- explainer construction ---------------------------------------------------------------------

class RiverLoss:
    """adapter giving the real river-metric loss the small oracle interface of UFLoss (calls log, value())"""

    def __init__(self, wrapped):
        self.wrapped = wrapped
        self.calls = []

    def __call__(self, y_true, y_pred, /):
        self.calls.append((y_true, dict(y_pred)))
        return self.wrapped(y_true, y_pred)

    def value(self, y_true, y_pred):
        return self.wrapped(y_true, dict(y_pred))


class LoggingImputer:
    """wraps a real imputer and records (subset as given, returned predictions); optional fault tick"""

    def __init__(self, inner, faults=None):
        self.inner = inner
        self.calls = []
        self.faults = faults

    def impute(self, feature_subset, x_i, n_samples=1):
        if self.faults is not None:
            self.faults.tick('imputer')
        snapshot = list(feature_subset)
        preds = self.inner.impute(feature_subset=feature_subset, x_i=x_i, n_samples=n_samples)
        self.calls.append({'subset': snapshot, 'subset_obj': feature_subset, 'x': x_i, 'n': n_samples, 'preds': preds})
        return preds

    def __getattr__(self, name):
        return getattr(self.inner, name)


def build_incremental(env, cls, cfg, faults=None, ctor_kwargs=None):
    """Real IncrementalSage / IncrementalPFI with UF model & loss, symbolic storage and tracker state.

    cfg keys: d, q, m, mode ('static'|'dynamic'), storage, imputer ('joint'|'product'|'default'), names, labels (1|2),
              bigger (bool), state ('sym'|'fresh')
    """
    d, q, m = cfg['d'], cfg.get('q', 1), cfg.get('m', 1)
    names = names_for(cfg.get('names', 'str'), d)
    labels = LABELSETS[cfg.get('labels', 1)]
    extra_reads, optional = [], []
    if cfg.get('context_key'):
        extra_reads.append('ctx')            # a model input that is not among the explained features
    if cfg.get('row_only_key'):
        extra_reads.append('w')
        optional.append('w')                 # stored rows carry it, the explained instance does not
    base_reads = cfg.get('_reads') if cfg.get('_reads') is not None else list(names)
    model = UFModel(env, names, labels=labels, faults=faults, reads=list(base_reads) + extra_reads,
                    varying_labels=cfg.get('varlabels', False), memoise=cfg.get('memoise', False), optional=optional,
                    positional=cfg.get('positional', False))
    if cfg.get('loss', '').startswith('river:'):
        # a real, stateful river metric turned into a loss by the library's own validator (its purity is C13's subject)
        import river.metrics as _rm
        from ixai.utils.validators.loss import validate_loss_function as _vlf
        loss = RiverLoss(_vlf(getattr(_rm, cfg['loss'].split(':')[1])()))
    else:
        loss = UFLoss(env, faults=faults, flavor=cfg.get('loss_type', 'py'))
    dynamic = cfg.get('mode', 'static') == 'dynamic'
    alpha = None
    if dynamic and 'alpha_value' in cfg:
        from fractions import Fraction
        alpha = Fraction(cfg['alpha_value'])      # long explicit histories: a concrete alpha keeps the claims low-degree
        if env.mode != 'sym' and env.numeric != 'fraction':
            alpha = float(alpha)
    elif dynamic:
        alpha = env.real('alpha')
        env.assume(And(alpha > 0, alpha <= 1))
    storage, rows, ys = build_storage(env, cfg.get('storage', 'batch'), names, m, store_targets=cfg.get('targets', True),
                                      cap=cfg.get('cap'), faults=faults)
    imp_kind = cfg.get('imputer', 'joint')
    defaults = None
    if imp_kind == 'default':
        defaults = sym_row(env, names, 'dflt')
        imputer = DefaultImputer(model, defaults)
    else:
        imputer = MarginalImputer(model, imp_kind, storage)
    limp = LoggingImputer(imputer, faults=faults)
    kw = dict(storage=storage, imputer=limp, n_inner_samples=q, dynamic_setting=dynamic)
    if dynamic:
        kw['smoothing_alpha'] = alpha
    if cls is IncrementalSage and cfg.get('bigger'):
        kw['loss_bigger_is_better'] = True
    kw.update(ctor_kwargs or {})
    ex = guarded(env, 'ctor', cls, model, loss, names, **kw)
    pre = None
    if cfg.get('state', 'sym') == 'sym':
        pre = inject_explainer_state(env, ex, names, labels, sage=cls is IncrementalSage,
                                     efficiency_inv=cfg.get('eff_inv', True))
    x = sym_row(env, names, 'x')
    if cfg.get('context_key'):
        x['ctx'] = env.real('x_ctx')
        for r_i, r in enumerate(rows):
            r['ctx'] = env.real(f"row{r_i}_ctx")
    if cfg.get('row_only_key'):
        for r_i, r in enumerate(rows):
            r['w'] = env.real(f"row{r_i}_w")
    y = env.real('y')
    return {'ex': ex, 'model': model, 'loss': loss, 'storage': storage, 'rows': rows, 'ys': ys, 'imputer': limp,
            'names': names, 'labels': labels, 'alpha': alpha, 'dynamic': dynamic, 'pre': pre, 'x': x, 'y': y,
            'defaults': defaults, 'q': q}


def kind_of(b):
    return 'smoothing' if b['dynamic'] else 'welford'


def ref_stat(b, val, N, v):
    return ref_update(kind_of(b), val, N, b['alpha'], v)


def mean_prediction(preds, labels_seen=None):
    """label-wise mean, a missing label counts as 0 (independent re-statement)"""
    labs = []
    for p in preds:
        for k in p:
            if k not in labs:
                labs.append(k)
    n = len(preds)
    return {lab: total([p[lab] if lab in p else 0 for p in preds]) / n for lab in labs}


def normalised(values: dict):
    """reference for the normalised multi-value view (python-float semantics): decided on the current path"""
    if len(values) <= 1:
        return dict(values)
    s = total(list(values.values()))
    if bool(eq(s, 0)):
        return {k: 0.0 for k in values}
    return {k: v / s for k, v in values.items()}
