"""C05 - batch / interval SAGE: efficiency over the explained data and the interval schedule."""
from symx import And, Or, Not, Implies, eq, same_term
from symx.stubs import patched, UFModel, UFLoss
from .common import guarded, total, sym_row, names_for
from .expl import LoggingImputer, mean_prediction, LABELSETS

from ixai.explainer.sage import BatchSage, IntervalSage
from ixai.storage import IntervalStorage

ID = 'C05'

META = {
    'level': 'other',
    'explanation': 'Efficiency: real BatchSage.explain_many / explain_many_original / IntervalSage on a symbolic data set with '
                   'uninterpreted model and loss, every feature order and every background draw a fork (end-to-end with the real '
                   'MarginalImputer at small sizes; compositional with an arbitrary-imputer stub - q fresh predictions for a '
                   'non-empty subset, the unperturbed prediction for the empty one, which is what C06 establishes - at larger '
                   'sizes); z3 proves sum = mean_i [L(y_i, mean prediction) - L(y_i, M(x_i))] and each value = mean_i of the chain '
                   'contribution recomputed from the imputer log. Schedule: ONE IntervalSage.explain_one from a symbolic state '
                   '(seen_samples and interval_length symbolic integers, force / update flags), so every interleaving is covered.',
    'bounds': {'quick': {'end_to_end (d,n,q)': '(2,2,1) (2,2,2) (1,3,1)', 'compositional': 'd<=3, n<=3, q<=2', 'labels': '1..2',
                         'interval storage': 'k<=3'},
               'thorough': {'end_to_end (d,n,q)': '+ (3,2,1) (2,3,1)', 'compositional': 'd<=3, n<=4, q<=3', 'interval storage': 'k<=4'}},
    'outside': ['floating-point rounding', 'sizes beyond the bounds', 'original mode with a model that reads unexplained features '
                '(stated side condition of the property)', 'tqdm progress output'],
    'assumptions': ['model / loss deterministic (uninterpreted)', 'model maps a list of rows to the list of per-row outputs',
                    'compositional layer: the imputer returns q predictions, the unperturbed one for the empty subset'],
}


def configs(tier):
    cfgs = []

    def add(**k):
        if k not in cfgs:
            cfgs.append(k)
    e2e = [(2, 2, 1), (2, 2, 2), (1, 3, 1)] + ([(3, 2, 1), (2, 3, 1)] if tier == 'thorough' else [])
    for (d, n, q) in e2e:
        for mode in ('many', 'original', 'interval'):
            add(group='e2e', mode=mode, d=d, n=n, q=q, _cost=5000 if (d, n, q) in ((3, 2, 1), (2, 3, 1)) else 500)
    add(group='e2e', mode='many', d=2, n=2, q=1, labels=2, _cost=500)
    add(group='e2e', mode='original', d=2, n=2, q=1, labels=2, _cost=500)
    add(group='e2e', mode='many', d=2, n=2, q=1, strat='product', _cost=500)
    add(group='e2e', mode='many', d=2, n=2, q=1, user_storage=True, _cost=500)
    add(group='e2e', mode='original', d=2, n=2, q=1, user_storage=True, _cost=500)
    nmax, qmax = (3, 2) if tier == 'quick' else (4, 3)
    for d in (1, 2, 3):
        for n in range(1, nmax + 1):
            for q in range(1, qmax + 1):
                if (6 if d == 3 else d) ** n > (300 if tier == 'quick' else 1300):
                    continue
                add(group='comp', d=d, n=n, q=q, _cost=(6 if d == 3 else 2) ** n)
    add(group='comp', d=2, n=2, q=2, labels=2, varlabels=True, _cost=300)
    add(group='comp', d=2, n=2, q=2, labels=4, _cost=300)
    add(group='e2e', mode='many', d=2, n=2, q=2, labels=4, _cost=500)
    add(group='comp', d=2, n=2, q=1, labels=5, _cost=300)
    add(group='comp', d=2, n=2, q=1, q_call=3, _cost=300)
    add(group='comp', d=1, n=1030 if tier == 'quick' else 2100, q=1, _cost=3000)
    kmax = 3 if tier == 'quick' else 4
    for k in range(1, kmax + 1):
        for m in range(0, k + 1):
            add(group='schedule', k=k, m=m, d=1, q=1, _cost=50 * (m + 1))
    add(group='schedule_defaults')
    for ell, k in ((2, 2), (3, 2), (2, 3), (1, 1)):
        add(group='interval_history', ell=ell, k=k, T=5 if tier == 'quick' else 7, d=1, q=2, _cost=400)
    for k in ((1, 2) if tier == 'quick' else (1, 2, 3)):
        add(group='given_storage', k=k, d=1, q=1, _cost=50)
    return cfgs


def scenario(env, cfg):
    with patched(env) as ctx:
        return globals()['_' + cfg['group']](env, cfg, ctx)


# ---- shared ------------------------------------------------------------------------------------------

class StubImputer:
    """arbitrary imputer obeying the C06 contract: q fresh symbolic predictions per non-empty subset"""

    def __init__(self, env, model, labels):
        self.env, self.model, self.labels = env, model, labels
        self.k = 0

    def impute(self, feature_subset, x_i, n_samples=1):
        if len(list(feature_subset)) == 0:
            return [self.model.out(x_i) for _ in range(n_samples)]
        out = []
        for _ in range(n_samples):
            self.k += 1
            out.append({lab: self.env.real(f"imp{self.k}_{lab}") for lab in self.labels})
        return out


def reference_values(env, names, data, model, loss, calls, q, tag=''):
    """independent recomputation of the batch SAGE values from the imputer log (or per-observation prediction log)"""
    n = len(data)
    preds = [model.out(x) for x, _y in data]
    baseline = mean_prediction(preds)
    per_obs = [calls[i * len(names):(i + 1) * len(names)] for i in range(n)]
    sums = {f: 0 for f in names}
    expl = 0
    ok = len(calls) == n * len(names)
    env.claim(f"d_coalitions_per_observation{tag}", ok)
    if not ok:
        return None, None
    for (x, y), cs in zip(data, per_obs):
        l_prev = loss.value(y, baseline)
        expl = expl + l_prev - loss.value(y, model.out(x))
        remaining = list(names)
        for c in cs:
            gone = [f for f in remaining if f not in c['subset']]
            if len(gone) != 1 or len(c['subset']) != len(remaining) - 1:
                env.claim(f"subsets_shrink_by_one{tag}", False)
                return None, None
            remaining = [f for f in remaining if f in c['subset']]
            env.claim(f"q_predictions{tag}", len(c['preds']) == q)
            l_j = loss.value(y, mean_prediction(c['preds']))
            sums[gone[0]] = sums[gone[0]] + (l_prev - l_j)
            l_prev = l_j
        env.claim(f"chain_ends_at_model_loss{tag}", eq(l_prev, loss.value(y, model.out(x))))
    return {f: sums[f] / n for f in names}, expl / n


def check_values(env, names, values, ref, expl, tag=''):
    env.claim(f"keys{tag}", set(values.keys()) == set(names))
    if set(values.keys()) != set(names):
        return
    env.claim(f"efficiency_sum_is_mean_explained_loss{tag}", eq(total([values[f] for f in names]), expl))
    for f in names:
        env.claim(f"value_is_mean_chain_contribution{tag}", eq(values[f], ref[f]))
    env.canary(f"not_divided_by_n_plus_one{tag}", eq(total([values[f] for f in names]) * (len(names) + 7), expl * (len(names) + 7) + 1))


class OriginalLog:
    """turns the model calls of explain_many_original into the same (subset, preds) log the imputer gives.
    The feature order of observation i is the i-th permutation drawn (an observation may be its own background row, so the
    order cannot always be read off the model inputs); the inputs are then checked against that order."""

    def __init__(self, env, model, names, q, n, perm_calls):
        self.env, self.model, self.names, self.q, self.n, self.perms = env, model, names, q, n, perm_calls

    def calls(self, data):
        log = self.model.calls[self.n:]          # after the batch prediction
        out = []
        pos = 0
        rows = [x for x, _y in data]
        if len(self.perms) != len(data):
            return None
        for (x, _y), perm in zip(data, self.perms):
            order = [self.names[i] for i in perm[2]]
            revealed = []
            for f in order:
                revealed.append(f)
                zs = log[pos:pos + self.q]
                pos += self.q
                if len(zs) < self.q:
                    return None
                rest = [g for g in self.names if g not in revealed]
                ok = all(all(same_term(z[g], x[g]) for g in revealed) and
                         any(all(same_term(z[g], r[g]) for g in rest) for r in rows) for z in zs)
                self.env.claim('original_mode_inputs_are_coalition_plus_one_background_row', ok)
                out.append({'subset': rest, 'preds': [self.model.out(z) for z in zs], 'inputs': zs})
        return out


# ---- end-to-end -------------------------------------------------------------------------------------

def _e2e(env, cfg, ctx):
    d, n, q = cfg['d'], cfg['n'], cfg['q']
    names = names_for('str', d)
    labels = LABELSETS[cfg.get('labels', 1)]
    model = UFModel(env, names, labels=labels)
    loss = UFLoss(env)
    kw = {'n_inner_samples': q}
    cls = IntervalSage if cfg['mode'] == 'interval' else BatchSage
    if cls is IntervalSage:
        kw.update(interval_length=1, storage_length=n)
    if cfg.get('user_storage'):
        # the user hands over a storage built with its default arguments (documented: targets are kept)
        from ixai.storage import BatchStorage, IntervalStorage
        kw['storage'] = IntervalStorage(size=n) if cls is IntervalSage else BatchStorage()
    ex = guarded(env, 'ctor', cls, model, names, loss, **kw)
    if cfg.get('strat') == 'product':
        ex._imputer.sampling_strategy = 'product'
    limp = LoggingImputer(ex._imputer)
    ex._imputer = limp
    data = [(sym_row(env, names, f"x{i}"), env.real(f"y{i}")) for i in range(n)]
    for (x, y) in data[:-1]:
        guarded(env, 'update_storage', ex.update_storage, x, y)
    x, y = data[-1]
    ekw = {'verbose': False}
    if cfg['mode'] == 'original':
        ekw['original_sage'] = True
    model.calls.clear()
    ret = guarded(env, 'explain_one', ex.explain_one, x, y, **ekw)
    if cfg['mode'] == 'original':
        calls = OriginalLog(env, model, names, q, n, [c for c in ctx.np_random.calls if c[0] == 'permutation']).calls(data)
        env.claim('original_mode_model_calls', calls is not None and len(model.calls) == n + n * d * q)
        if calls is None:
            return
    else:
        calls = limp.calls
    ref, expl = reference_values(env, names, data, model, loss, calls, q)
    if ref is None:
        return
    check_values(env, names, ex.importance_values, ref, expl)
    env.claim('returned_is_importance_values', ret is ex.importance_values or And(*[eq(ret[f], ex.importance_values[f]) for f in names]))
    env.claim('batch_prediction_first_over_exactly_the_data', len(model.calls) >= n and
              all(all(same_term(model.calls[i][f], data[i][0][f]) for f in names) for i in range(n)))


# ---- compositional ----------------------------------------------------------------------------------

def _comp(env, cfg, ctx):
    d, n, q = cfg['d'], cfg['n'], cfg['q']
    names = names_for('str', d)
    labels = LABELSETS[cfg.get('labels', 1)]
    model = UFModel(env, names, labels=labels, varying_labels=cfg.get('varlabels', False))
    loss = UFLoss(env)
    stub = StubImputer(env, model, labels)
    limp = LoggingImputer(stub)
    ex = guarded(env, 'ctor', BatchSage, model, names, loss, n_inner_samples=q, imputer=limp)
    data = [(sym_row(env, names, f"x{i}"), env.real(f"y{i}")) for i in range(n)]
    xs, ys = [x for x, _ in data], [y for _, y in data]
    kw = {'n_inner_samples': cfg['q_call']} if 'q_call' in cfg else {}
    ret = guarded(env, 'explain_many', ex.explain_many, xs, ys, verbose=False, **kw)
    q = cfg.get('q_call', q)
    ref, expl = reference_values(env, names, data, model, loss, limp.calls, q)
    if ref is None:
        return
    check_values(env, names, ex.importance_values, ref, expl)


# ---- interval schedule -------------------------------------------------------------------------------

def _schedule(env, cfg, ctx):
    k, m, d, q = cfg['k'], cfg['m'], cfg['d'], cfg['q']
    names = names_for('str', d)
    model = UFModel(env, names)
    loss = UFLoss(env)
    ell = env.int('interval_length')
    env.assume(ell >= 1)
    ex = guarded(env, 'ctor', IntervalSage, model, names, loss, n_inner_samples=q, interval_length=ell, storage_length=k)
    env.claim('default_storage_is_interval_storage_of_storage_length', isinstance(ex._storage, IntervalStorage) and ex._storage.size == k)
    rows = [(sym_row(env, names, f"old{i}"), env.real(f"oldy{i}")) for i in range(m)]
    for (x, y) in rows:
        ex._storage.update(x, y)
    s = env.int('seen')
    env.assume(s >= 0)
    ex.seen_samples = s
    prev = {f: env.real(f"prev_{i}") for i, f in enumerate(names)}
    ex.importance_values = prev
    force = bool(env.choose(2, label='force'))
    upd = bool(env.choose(2, label='update_storage'))
    x, y = sym_row(env, names, 'x'), env.real('y')
    if not upd and m == 0:
        return      # nothing stored and nothing added: explaining an empty window is outside the property
    limp = LoggingImputer(ex._imputer)
    ex._imputer = limp
    ret = guarded(env, 'explain_one', ex.explain_one, x, y, force_explain=force, update_storage=upd, verbose=False)
    env.claim('ordinal_counted', eq(ex.seen_samples, s + 1))
    due = eq((s + 1) % ell, 0)
    recomputed = len(model.calls) > 0 or len(loss.calls) > 0 or len(limp.calls) > 0
    window = list(ex._storage.get_data()[0])
    expected_window = ([r[0] for r in rows] + ([x] if upd else []))[-k:]
    env.claim('window_is_last_storage_length_observations', len(window) == len(expected_window) and all(a is b for a, b in zip(window, expected_window)))
    if recomputed:
        env.claim('recomputed_only_when_due_or_forced', True if force else due)
        n = len(window)
        env.claim('explained_exactly_the_window', len(model.calls) >= n and
                  all(all(same_term(model.calls[i][f], window[i][f]) for f in names) for i in range(n)))
        data = list(zip(window, list(ex._storage.get_data()[1])))
        ref, expl = reference_values(env, names, data, model, loss, limp.calls, q)
        if ref is not None:
            check_values(env, names, ex.importance_values, ref, expl)
    else:
        env.claim('skipped_only_when_not_due_and_not_forced', And(Not(due), not force))
        env.claim('previous_values_returned_unchanged', (ret is prev or And(*[eq(ret[f], prev[f]) for f in names])) and
                  And(*[eq(ex.importance_values[f], prev[f]) for f in names]))
    env.canary('schedule_not_every_call', recomputed)
    env.canary('schedule_not_never', not recomputed)


def _schedule_defaults(env, cfg, ctx):
    names = names_for('str', 2)
    model, loss = UFModel(env, names), UFLoss(env)
    ex = guarded(env, 'ctor', IntervalSage, model, names, loss)
    env.claim('default_interval_and_storage_length', ex.interval_length == 1000 and ex._storage.size == 1000 and ex.seen_samples == 0)
    for t in range(3):
        guarded(env, 'explain_one', ex.explain_one, sym_row(env, names, f"x{t}"), env.real(f"y{t}"), verbose=False)
    env.claim('no_model_evaluation_before_the_interval_elapsed', len(model.calls) == 0 and len(loss.calls) == 0)
    env.claim('initial_values_zero', all(v == 0.0 for v in ex.importance_values.values()) and set(ex.importance_values) == set(names))


def _given_storage(env, cfg, ctx):
    """an IntervalStorage handed to the constructor (empty, as usual) is THE window that is explained"""
    from ixai.imputer import MarginalImputer
    k, d, q = cfg['k'], cfg['d'], cfg['q']
    names = names_for('str', d)
    model, loss = UFModel(env, names), UFLoss(env)
    given = IntervalStorage(size=k, store_targets=True)
    ex = guarded(env, 'ctor', IntervalSage, model, names, loss, n_inner_samples=q, interval_length=1, storage_length=k + 2,
                 storage=given)
    env.claim('given_storage_is_used', ex._storage is given and ex._imputer.storage_object is given)
    data = []
    for t in range(k + 1):
        x, y = sym_row(env, names, f"x{t}"), env.real(f"y{t}")
        data.append((x, y))
        model.calls.clear()
        limp = LoggingImputer(ex._imputer) if not isinstance(ex._imputer, LoggingImputer) else ex._imputer
        ex._imputer = limp
        limp.calls.clear()
        guarded(env, 'explain_one', ex.explain_one, x, y, verbose=False)
        window = data[-k:]
        env.claim('given_storage_holds_the_last_size_observations', len(given) == len(window) and
                  all(a is b[0] for a, b in zip(given.get_data()[0], window)))
        ref, expl = reference_values(env, names, window, model, loss, limp.calls, q, tag=f"_t{t + 1}")
        if ref is not None:
            check_values(env, names, ex.importance_values, ref, expl, tag=f"_t{t + 1}")


def _interval_history(env, cfg, ctx):
    """a fresh IntervalSage over T real calls with every pattern of forced calls: schedule, window and values after each call"""
    from ixai.imputer import DefaultImputer
    ell, k, d, q = cfg['ell'], cfg['k'], cfg['d'], cfg['q']
    names = names_for('str', d)
    model, loss = UFModel(env, names), UFLoss(env)
    limp = LoggingImputer(DefaultImputer(model, sym_row(env, names, 'dflt')))
    ex = guarded(env, 'ctor', IntervalSage, model, names, loss, n_inner_samples=q, interval_length=ell, storage_length=k, imputer=limp)
    data = []
    prev = dict(ex.importance_values)
    for t in range(1, cfg['T'] + 1):
        force = bool(env.choose(2, label=('force', t)))
        x, y = sym_row(env, names, f"x{t}"), env.real(f"y{t}")
        data.append((x, y))
        model.calls.clear()
        loss.calls.clear()
        limp.calls.clear()
        ret = guarded(env, 'explain_one', ex.explain_one, x, y, force_explain=force, verbose=False)
        env.claim('ordinal_counted', ex.seen_samples == t)
        due = force or t % ell == 0
        recomputed = len(model.calls) > 0 or len(loss.calls) > 0
        env.claim('recomputed_iff_due_or_forced', recomputed == due, detail=f"call {t}, interval {ell}, forced={force}")
        window = data[-k:]
        env.claim('window_is_last_storage_length_observations', len(ex._storage) == len(window) and
                  all(a is b[0] for a, b in zip(ex._storage.get_data()[0], window)))
        if recomputed:
            ref, expl = reference_values(env, names, window, model, loss, limp.calls, q, tag='_hist')
            if ref is not None:
                check_values(env, names, ex.importance_values, ref, expl, tag='_hist')
            prev = dict(ex.importance_values)
        else:
            env.claim('previous_values_returned_unchanged', set(ret.keys()) == set(prev.keys()) and
                      And(*[eq(ret[f], prev[f]) for f in prev]))


META['explanation'] += ' Further groups: a storage object handed to the constructor is the explained window; fresh IntervalSage over 5-7 real calls under every pattern of forced calls.'

META['explanation'] += ' End-to-end runs also with a storage the user built with its default arguments.'
