"""C12 - MultiValueTracker: independent per-key statistics, zero-fill, safe normalisation (both numeric flavours)."""
import copy

from symx import And, Or, Not, Implies, eq, is_nonfinite, NonFinite
from symx.stubs import patched
from .common import guarded, total, ref_update, check_state_coverage

from ixai.utils.tracker import MultiValueTracker, WelfordTracker, ExponentialSmoothingTracker

ID = 'C12'
KEYS = ['a', 'b', 'c']

META = {
    'level': 'other',
    'explanation': 'Inductive step of the real MultiValueTracker.update from an arbitrary state (tracked key set K, per-key tracker '
                   'state with its own update count, update dictionary with key set U and symbolic values), both base trackers; '
                   'the normalised view from an arbitrary state in both numeric flavours (python floats raise on /0, NumPy scalars '
                   'return inf/nan: the proxy numbers model both); base case: fresh tracker under every key-set history of length T.',
    'bounds': {'quick': {'keys': 'subsets of {a,b,c}', 'history_base_case': 'T=3 over {a,b}', 'flavours': 'py,np,mixed'},
               'thorough': {'keys': 'subsets of {a,b,c}', 'history_base_case': 'T=4 over {a,b,c} subsets, T=6 over {a,b}', 'flavours': 'py,np,mixed'}},
    'outside': ['non-numeric values', 'floating-point rounding (reals)', 'NumPy integer overflow'],
    'assumptions': ['python float / int: division by zero raises ZeroDivisionError; NumPy scalar: division by zero yields inf/nan '
                    '(flavour model, validated against real NumPy in the engine self-test)',
                    'base trackers behave as proved in C10'],
}


def _subsets(keys):
    out = [[]]
    for k in keys:
        out += [s + [k] for s in out]
    return out


def configs(tier):
    cfgs = []
    for base in ('welford', 'smoothing'):
        for K in _subsets(KEYS):
            for U in _subsets(KEYS):
                cfgs.append(dict(group='step', base=base, K=''.join(K), U=''.join(U), flavor='py'))
        for fl in ('np', 'mixed'):
            cfgs.append(dict(group='step', base=base, K='ab', U='bc', flavor=fl))
        for K in _subsets(KEYS):
            for fl in ('py', 'np', 'mixed'):
                cfgs.append(dict(group='norm', base=base, K=''.join(K), flavor=fl))
        cfgs.append(dict(group='norm_binary64', base=base, _cost=300))
        cfgs.append(dict(group='many_keys', base=base, n_keys=40 if tier == 'quick' else 300, _cost=100))
        if tier == 'quick':
            cfgs.append(dict(group='history', base=base, keys='ab', T=3, _cost=64))
        else:
            cfgs.append(dict(group='history', base=base, keys='abc', T=4, _cost=4096))
            cfgs.append(dict(group='history', base=base, keys='ab', T=6, _cost=4096))
    return cfgs


def finding_key(cfg, name):
    return f"{cfg['group']}/{cfg.get('flavor', 'py')}/{name}"


def numeric(cfg):
    return 'npfloat' if cfg.get('flavor') in ('np', 'mixed') else 'fraction'


def scenario(env, cfg):
    with patched(env):
        return globals()['_' + cfg['group']](env, cfg)


def _base(env, cfg):
    if cfg['base'] == 'welford':
        return WelfordTracker(), None
    alpha = env.real('alpha')
    env.assume(And(alpha >= 0, alpha <= 1))
    return ExponentialSmoothingTracker(alpha), alpha


def _fl(cfg, i):
    fl = cfg.get('flavor', 'py')
    if fl == 'mixed':
        return 'np' if i % 2 == 0 else 'py'
    return fl


def _inject(env, mvt, K, cfg):
    check_state_coverage(mvt)
    check_state_coverage(mvt._base_tracker)
    st = {}
    mvt.tracked_value = {}
    mvt._tracked_keys = set()
    for i, k in enumerate(K):
        tr = copy.deepcopy(mvt._base_tracker)
        n = env.int(f"N_{k}")
        env.assume(n >= 0)
        val = env.real(f"val_{k}", _fl(cfg, i))
        tr.N, tr.tracked_value = n, val
        if isinstance(tr, WelfordTracker):
            tr.sum_squares = env.real(f"ssq_{k}")
        mvt.tracked_value[k] = tr
        mvt._tracked_keys.add(k)
        st[k] = (val, n, tr)
    N = env.int('N')
    env.assume(N >= 0)
    mvt.N = N
    return st, N


def _step(env, cfg):
    base, alpha = _base(env, cfg)
    mvt = MultiValueTracker(base)
    base.update(env.real('caller_keeps_using_its_tracker'))     # must not leak into keys that appear later
    K, U = list(cfg['K']), list(cfg['U'])
    st, N = _inject(env, mvt, K, cfg)
    values = {k: env.real(f"v_{k}", _fl(cfg, i + 1)) for i, k in enumerate(U)}
    values_copy = dict(values)
    ret = guarded(env, 'update', mvt.update, values)
    env.claim('returns_self', ret is mvt)
    got = guarded(env, 'get', mvt.get)
    env.claim('keys_never_dropped_new_keys_added', set(got.keys()) == set(K) | set(U))
    env.claim('update_count', eq(mvt.N, N + 1))
    env.claim('input_dict_unmodified', values == values_copy if not values else
              list(values.keys()) == list(values_copy.keys()) and all(values[k] is values_copy[k] for k in values))
    kind = cfg['base']
    for k in set(K) | set(U):
        if k in K and k in U:
            exp, n_exp = ref_update(kind, st[k][0], st[k][1], alpha, values[k]), st[k][1] + 1
        elif k in K:
            exp, n_exp = ref_update(kind, st[k][0], st[k][1], alpha, 0), st[k][1] + 1
        else:
            exp, n_exp = ref_update(kind, 0, 0, alpha, values[k]), 1
        if k in got:
            env.claim('per_key_statistic', eq(got[k], exp), detail=f"key {k}")
            env.claim('per_key_count', eq(mvt.tracked_value[k].N, n_exp), detail=f"key {k}")
    trs = list(mvt.tracked_value.values())
    env.claim('independent_tracker_objects', len({id(t) for t in trs}) == len(trs) and all(t is not mvt._base_tracker for t in trs))
    for k in K:
        env.claim('existing_trackers_kept', mvt.tracked_value[k] is st[k][2])
    env.claim('base_tracker_pristine', And(eq(mvt._base_tracker.N, 0), eq(mvt._base_tracker.tracked_value, 0)))
    if K or U:
        k0 = (K + U)[0]
        env.canary('statistic_shifted', eq(got[k0], (st[k0][0] if k0 in st else 0) + 1 + (values.get(k0, 0))))


def _norm(env, cfg):
    base, alpha = _base(env, cfg)
    mvt = MultiValueTracker(base)
    K = list(cfg['K'])
    st, N = _inject(env, mvt, K, cfg)
    raw = {k: st[k][0] for k in K}
    out = guarded(env, 'get_normalized', mvt.get_normalized)
    env.claim('normalised_keys', set(out.keys()) == set(K))
    if set(out.keys()) != set(K):
        return
    env.claim('never_nan_or_inf', not any(is_nonfinite(v) for v in out.values()),
              detail='normalised view contains nan/inf')
    if any(is_nonfinite(v) for v in out.values()):
        return
    if len(K) <= 1:
        env.claim('single_key_raw_values', And(*[eq(out[k], raw[k]) for k in K]) if K else True)
        return
    s = total([raw[k] for k in K])
    if bool(eq(s, 0)):
        env.claim('zero_sum_gives_all_zero', And(*[eq(out[k], 0) for k in K]))
    else:
        env.claim('ratios_preserved', And(*[eq(out[k] * s, raw[k]) for k in K]))
        env.claim('adds_up_to_one', eq(total([out[k] for k in K]), 1))
    env.canary('not_divided_by_len', And(*[eq(out[k] * len(K), raw[k]) for k in K]))
    # the view does not change the state
    env.claim('state_untouched', And(*[eq(mvt.tracked_value[k].tracked_value, raw[k]) for k in K]))


def _history(env, cfg):
    """fresh tracker; every history of key sets of length T; compared with independent per-key references"""
    base, alpha = _base(env, cfg)
    mvt = MultiValueTracker(base)
    base.update(env.real('caller_keeps_using_its_tracker'))
    keys = list(cfg['keys'])
    subsets = _subsets(keys)
    ref = {}       # key -> (value, count)
    kind = cfg['base']
    for t in range(cfg['T']):
        U = subsets[env.choose(len(subsets), label=('keyset', t))]
        values = {k: env.real(f"v{t}_{k}") for k in U}
        guarded(env, 'update', mvt.update, values)
        for k in set(ref) | set(U):
            val, n = ref.get(k, (0, 0))
            ref[k] = (ref_update(kind, val, n, alpha, values.get(k, 0)), n + 1)
        got = mvt.get()
        env.claim(f"keys_t{t + 1}", set(got.keys()) == set(ref.keys()))
        env.claim(f"N_t{t + 1}", eq(mvt.N, t + 1))
        for k in ref:
            if k in got:
                env.claim(f"value_since_first_appearance_t{t + 1}", eq(got[k], ref[k][0]))
    if ref:
        # reads are pure: the normalised view neither changes what get() reports afterwards nor a dict handed out before
        before = mvt.get()
        snap = dict(before)
        guarded(env, 'get_normalized', mvt.get_normalized)
        after = mvt.get()
        env.claim('normalised_view_leaves_raw_values', set(after.keys()) == set(ref.keys())
                  and And(*[eq(after[k], ref[k][0]) for k in ref if k in after]))
        env.claim('dict_handed_out_before_is_not_rewritten', set(before.keys()) == set(snap.keys())
                  and And(*[eq(before[k], snap[k]) for k in snap if k in before]))
        k0 = sorted(ref)[0]
        env.canary('history_shifted', eq(mvt.get()[k0], ref[k0][0] + 1))


def _norm_binary64(env, cfg):
    """bit-precise binary64: for two keys whose sum is non-zero (possibly subnormal) and whose values are not larger than
    2^20 times the sum, the normalised view is finite"""
    import z3
    from symx.fp64 import F64Sym, F64
    if env.mode != 'sym':
        import numpy as np
        base = WelfordTracker() if cfg['base'] == 'welford' else ExponentialSmoothingTracker(0.5)
        bad = []
        for t in (5e-324, 1e-320, 2.5e-310, 1e-308):
            for typ in (float, np.float64):
                mvt = MultiValueTracker(base)
                mvt.update({'a': typ(t), 'b': typ(3 * t)})
                for k_ in mvt.tracked_value:
                    mvt.tracked_value[k_].tracked_value = typ(t if k_ == 'a' else 3 * t)
                with np.errstate(all='ignore'):
                    out = mvt.get_normalized()
                if any(is_nonfinite(v) for v in out.values()):
                    bad.append((t, out))
        env.claim('finite_for_every_nonzero_sum_including_subnormals', not bad, detail=str(bad[:1]))
        return
    base = WelfordTracker() if cfg['base'] == 'welford' else ExponentialSmoothingTracker(0.5)
    mvt = MultiValueTracker(base)
    vals = {'a': F64Sym.var('b64_a'), 'b': F64Sym.var('b64_b')}
    for k_, v in vals.items():
        env.assume(v.is_finite())
        tr = copy.deepcopy(mvt._base_tracker)
        tr.tracked_value, tr.N = v, 1
        mvt.tracked_value[k_] = tr
        mvt._tracked_keys.add(k_)
    out = guarded(env, 'get_normalized', mvt.get_normalized)
    tot = vals['a'] + vals['b']
    tot2 = vals['b'] + vals['a']
    moderate = z3.And(tot.is_finite().t, z3.Not(z3.fpIsZero(tot.t)),
                      *[z3.fpLEQ(z3.fpAbs(v.t), z3.fpMul(z3.RNE(), z3.fpAbs(tot.t), z3.FPVal(2.0 ** 20, F64))) for v in vals.values()])
    for k_ in vals:
        o = out[k_]
        if isinstance(o, F64Sym):
            env.claim('finite_for_every_nonzero_sum_including_subnormals', z3.Implies(moderate, o.is_finite().t))
    _ = tot2


def _many_keys(env, cfg):
    """key sets far larger than the enumerated ones: three updates over K keys (all, the odd ones, all plus new ones)"""
    base, alpha = _base(env, cfg)
    mvt = MultiValueTracker(base)
    K = cfg['n_keys']
    keys = [f"k{i}" for i in range(K)] + list(range(K))        # str and int keys
    kind = cfg['base']
    ref = {}
    plans = [keys, keys[1::2], keys + [f"late{i}" for i in range(5)]]
    for t, U in enumerate(plans):
        values = {k: env.real(f"v{t}_{i}") for i, k in enumerate(U)}
        guarded(env, 'update', mvt.update, values)
        for k in set(ref) | set(U):
            val, n = ref.get(k, (0, 0))
            ref[k] = (ref_update(kind, val, n, alpha, values.get(k, 0)), n + 1)
    got = mvt.get()
    env.claim('keys_many', set(got.keys()) == set(ref.keys()) and len(got) == 2 * K + 5)
    env.claim('count_many', eq(mvt.N, 3))
    probe = [keys[0], keys[1], keys[K - 1], keys[K], keys[2 * K - 1], 'late0', 'late4']
    for k in probe:
        env.claim('value_since_first_appearance_many_keys', eq(got[k], ref[k][0]), detail=f"key {k!r}")
    norm = guarded(env, 'get_normalized', mvt.get_normalized)
    env.claim('normalised_keys_many', set(norm.keys()) == set(ref.keys()))
