"""Shared harness building blocks (DESIGN section 2)."""
from __future__ import annotations

import copy
import warnings

import z3
from symx import core
from symx.core import Sym, And, Or, Not, Implies, eq, le, HarnessError, Abort

warnings.simplefilter('ignore')


EndPath = core.EndPath


def guarded(env, name, fn, *args, allow=(), **kwargs):
    """Run product code; an exception that is not in ``allow`` is an execution-level failure."""
    try:
        return fn(*args, **kwargs)
    except allow:
        raise
    except HarnessError:
        raise
    except Exception as e:  # noqa: BLE001 - product code may raise anything
        tb = e.__traceback__
        while tb.tb_next is not None:
            tb = tb.tb_next
        origin = tb.tb_frame.f_code.co_filename
        if isinstance(e, (AttributeError, NameError, z3.Z3Exception)) and ('/symx/' in origin or '/vcheck/' in origin):
            # raised by the engine / a harness, not by the product: never evidence of a violation
            raise HarnessError(f"{name}: {type(e).__name__} inside the verification machinery ({origin}): {e}")
        env.fail(f"{name}:raises:{type(e).__name__}", f"{type(e).__name__}: {e}",
                 detail=f"{type(e).__name__}: {str(e)[:200]}")
        raise EndPath(f"{name} raised {type(e).__name__}")


def total(values):
    """sum without a 0 start that would change the flavour"""
    it = iter(values)
    try:
        acc = next(it)
    except StopIteration:
        return 0
    for v in it:
        acc = acc + v
    return acc


# ---- tracker state ---------------------------------------------------------------------------

def welford_state(env, tr, stem, N=None, with_ssq=True, nonneg=False, flavor='py'):
    """overwrite a real WelfordTracker's fields with symbols; returns the pre-state dict"""
    N = env.int(f"{stem}_N") if N is None else N
    tv = env.real(f"{stem}_val", flavor)
    tr.N = N
    tr.tracked_value = tv
    st = {'N': N, 'val': tv}
    if with_ssq:
        ssq = env.real(f"{stem}_ssq", flavor)
        env.assume(ssq >= 0)
        tr.sum_squares = ssq
        st['ssq'] = ssq
    if nonneg:
        env.assume(tv >= 0)
    return st


def smoothing_state(env, tr, stem, N=None, alpha=None, nonneg=False, flavor='py'):
    N = env.int(f"{stem}_N") if N is None else N
    tv = env.real(f"{stem}_val", flavor)
    tr.N = N
    tr.tracked_value = tv
    if alpha is not None:
        tr.alpha = alpha
    if nonneg:
        env.assume(tv >= 0)
    return {'N': N, 'val': tv}


def ref_update(kind, val, N, alpha, v):
    """reference update of the running statistic (independent of ixai's code): returns new value"""
    if kind == 'welford':
        return val + (v - val) / (N + 1)
    return (1 - alpha) * val + alpha * v


def names_for(kind, d):
    """feature names of the requested type"""
    if kind == 'str':
        return [f"f{i}" for i in range(d)]
    if kind == 'int':
        return [i + 1 for i in range(d)]
    if kind == 'float':
        return [0.5 + i for i in range(d)]
    if kind == 'mixed':
        pool = ['a', 1, 2.5, 'b', 3]
        return pool[:d]
    raise ValueError(kind)


def sym_row(env, names, stem, flavor='py'):
    return {f: env.real(f"{stem}_{i}", flavor) for i, f in enumerate(names)}


# ---- state coverage of the inductive-step harnesses -----------------------------------------------------------------
# A step "from an arbitrary state" is only an induction step if the harness injects EVERY field that carries state from one
# call to the next.  If the object has grown a numeric / container attribute these harnesses do not know (an accumulator, a
# cache, a compensation term), the step proves nothing about histories: that is reported as a harness error (exit 2,
# "inconclusive"), never as success.  Explicit runs from fresh objects are unaffected.

KNOWN_STATE = {
    'WelfordTracker': {'tracked_value', 'N', 'sum_squares'},
    'ExponentialSmoothingTracker': {'tracked_value', 'N', 'alpha'},
    'MultiValueTracker': {'tracked_value', 'N', '_tracked_keys', '_base_tracker'},
    'IncrementalSage': {'_model_function', 'feature_names', 'number_of_features', 'seen_samples', '_loss_function',
                        '_smoothing_alpha', '_marginal_loss_tracker', '_model_loss_tracker', '_marginal_prediction_tracker',
                        '_importance_trackers', '_variance_trackers', '_storage', '_imputer', '_loss_direction',
                        'n_inner_samples', 'marginal_prediction'},
    'IncrementalPFI': {'_model_function', 'feature_names', 'number_of_features', 'seen_samples', '_loss_function',
                       '_smoothing_alpha', '_marginal_loss_tracker', '_model_loss_tracker', '_marginal_prediction_tracker',
                       '_importance_trackers', '_variance_trackers', '_storage', '_imputer', 'n_inner_samples'},
}


def check_state_coverage(obj):
    import collections
    known = KNOWN_STATE.get(type(obj).__name__)
    if known is None:
        return
    carriers = (int, float, complex, list, dict, set, tuple, collections.deque, Sym)
    try:
        import numpy as np
        carriers = carriers + (np.ndarray, np.generic)
    except ImportError:  # pragma: no cover
        pass
    extra = [a for a, v in vars(obj).items() if a not in known and isinstance(v, carriers) and not isinstance(v, bool)]
    if extra:
        raise HarnessError(f"{type(obj).__name__} carries state the inductive-step harness does not inject: {sorted(extra)}; "
                           f"the step from an arbitrary state would not cover histories (extend KNOWN_STATE and the invariant)")
