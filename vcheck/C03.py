"""C03 - incremental SAGE credits each feature its loss reduction along the random chain.

Per-feature / per-statistic oracle, written independently of ixai's code, evaluated on every path
(every feature order, every background draw) from an arbitrary symbolic tracker state.
"""
from symx import And, Or, Not, Implies, eq, same_term, is_nonfinite
from symx.stubs import patched
from .common import guarded, total, sym_row
from .expl import build_incremental, ref_stat, mean_prediction, normalised, LABELSETS

from ixai.explainer import IncrementalSage

ID = 'C03'

META = {
    'level': 'other',
    'explanation': 'One real IncrementalSage.explain_one from an arbitrary symbolic state; the feature order is read off the '
                   'imputer calls, the imputed inputs off the model calls; an independent reference recomputes every '
                   'per-observation quantity (chain losses, marginal prediction, marginal/model loss) and every running '
                   'statistic (importance, variance against the UPDATED importance, +1 offsets) and z3 proves equality for all '
                   'values on every path. Base case: fresh explainer with a growing label set.',
    'bounds': {
        'quick': {'d': '1..3', 'q': '1..2', 'm': '1..2', 'labels': '1..2 (+ growing {a} -> {a,b})', 'modes': 'static,dynamic'},
        'thorough': {'d': '1..4', 'q': '1..3', 'm': '1..3', 'labels': '1..3', 'paths per configuration': '<= 6000'},
    },
    'outside': ['floating-point rounding', 'sizes beyond the bounds', 'NumPy-scalar model outputs in the normalised marginal '
                'prediction (zero-sum behaviour by numeric type is C12)', 'tree imputer'],
    'assumptions': ['model and loss deterministic (uninterpreted functions; one UF per label / label set)',
                    'draws: every outcome of randrange / permutation explored',
                    'exact real arithmetic', 'state invariant: shared N / alpha, variance trackers >= 0'],
}


def _cost(c):
    import math
    d, q, m = c['d'], c.get('q', 1), c.get('m', 1)
    draws = d * q if c.get('imputer', 'joint') == 'joint' else (q * d * (d - 1)) // 2
    if c.get('imputer') == 'default':
        draws = 0
    return math.factorial(d) * (max(m, 1) ** draws) * (2 if c.get('labels', 1) > 1 else 1)


def configs(tier):
    cfgs = []

    def add(**k):
        k.setdefault('group', 'step')
        k.setdefault('_cost', _cost(k))
        if k not in cfgs:
            cfgs.append(k)
    dmax, qmax, mmax = (3, 2, 2) if tier == 'quick' else (4, 3, 3)
    cap = 200 if tier == 'quick' else 6000
    for mode in ('static', 'dynamic'):
        for imp in ('joint', 'product', 'default'):
            for d in range(1, dmax + 1):
                for q in range(1, qmax + 1):
                    for m in range(1, mmax + 1):
                        if imp == 'default' and m > 1:
                            continue
                        c = dict(d=d, q=q, m=m, mode=mode, imputer=imp, storage='batch')
                        if _cost(c) <= cap:
                            add(**c)
        add(d=2, q=2, m=2, mode=mode, imputer='joint', storage='batch', labels=2)
        add(d=2, q=1, m=2, mode=mode, imputer='product', storage='interval', labels=2, bigger=True)
        add(d=2, q=1, m=2, mode=mode, imputer='joint', storage='batch', bigger=True)
        for metric in ('MAE', 'MSE'):
            add(d=2, q=2, m=2, mode=mode, imputer='joint', storage='batch', loss='river:' + metric)
        add(d=2, q=2, m=2, mode=mode, imputer='joint', storage='batch', loss_type='int')
        add(d=2, q=2, m=2, mode=mode, imputer='joint', storage='batch', loss_type='np')
        add(d=2, q=1, m=2, mode=mode, imputer='joint', storage='geometric', names='int')
        add(d=2, q=1, m=2, mode=mode, imputer='joint', storage='uniform', names='float')
        add(d=2, q=1, m=1, mode=mode, imputer='joint', storage='batch', partial_labels=True, labels=2)
        add(d=2, q=1, m=1, mode=mode, imputer='joint', storage='batch', swap_labels=True, labels=2)
        add(d=2, q=3, m=1, mode=mode, imputer='default', storage='batch')
        add(d=2, q=2, m=1, mode=mode, imputer='joint', storage='batch', memoise=True)
        add(group='grow', d=2, q=1, mode=mode, imputer='joint', storage='batch')
        for imp in ('joint', 'product'):
            add(d=2, q=1, m=2, mode=mode, imputer=imp, storage='batch', context_key=True)
            add(d=2, q=1, m=2, mode=mode, imputer=imp, storage='batch', row_only_key=True)
            add(d=3, q=1, m=2, mode=mode, imputer=imp, storage='batch', positional=True, _cost=100)
        add(d=2, q=1, q_call=2, m=2, mode=mode, imputer='joint', storage='batch')
        add(d=2, q=2, q_call=1, m=2, mode=mode, imputer='product', storage='batch')
        add(d=2, q=1, q_call=3, m=2, mode=mode, imputer='joint', storage='batch', _cost=800)
        add(group='long', d=2, q=2, T=5 if tier == 'quick' else 7, mode=mode, imputer='default', storage='interval', cap=2,
            alpha_value='1/4', _cost=300)
        for st in ('interval', 'geometric', 'uniform'):
            for strat in ('joint', 'product'):
                add(d=2, q=1, m=2, mode=mode, imputer=strat, storage=st, calls=2, _cost=1500)
        add(d=2, q=2, m=2, mode=mode, imputer='joint', storage='batch', labels=4, _cost=300)
        add(d=2, q=1, m=2, mode=mode, imputer='product', storage='batch', labels=5, _cost=100)
        add(d=2, q=2, m=2, mode=mode, imputer='joint', storage='batch', labels=2, varlabels=True, _cost=4000)
        add(d=1, q=3, m=2, mode=mode, imputer='joint', storage='batch', labels=2, varlabels=True, _cost=500)
        if tier == 'thorough':
            add(d=2, q=2, m=2, mode=mode, imputer='joint', storage='batch', labels=3)
            add(d=3, q=1, m=2, mode=mode, imputer='joint', storage='batch', labels=2)
    return cfgs


def scenario(env, cfg):
    with patched(env):
        if cfg['group'] == 'grow':
            return _grow(env, cfg)
        if cfg['group'] == 'long':
            return _long(env, cfg)
        return _step(env, cfg)


def _reference_and_claims(env, b, pre_vals, x, y, tag=''):
    """pre_vals: dict with pre-state values: imp{f}, var{f}, marg, model, mpred{label}, N (per tracker N's given as callables)"""
    ex, names, q = b['ex'], b['names'], b['q']
    model, loss, limp = b['model'], b['loss'], b['imputer']
    direction = 1 if b.get('bigger') else 0
    # ---- what reached the imputer: the order is read off the subsets
    calls = limp.calls[-len(names):] if len(limp.calls) >= len(names) else limp.calls
    env.claim(f"one_imputer_call_per_feature{tag}", len(calls) == len(names))
    remaining = list(names)
    order = []
    ok_struct = True
    for c in calls:
        sub = list(c['subset'])
        gone = [f for f in remaining if f not in sub]
        if len(gone) != 1 or any(f not in remaining for f in sub) or len(sub) != len(remaining) - 1:
            ok_struct = False
            break
        order.append(gone[0])
        remaining = [f for f in remaining if f in sub]
    env.claim(f"subsets_shrink_by_one_revealed_feature{tag}", ok_struct and remaining == [])
    if not (ok_struct and remaining == []):
        return
    # ---- per-observation quantities
    pred0 = model.out(x)
    model_loss_c = loss.value(y, pred0)
    labels_all = list(pre_vals['mpred'].keys()) + [l for l in pred0 if l not in pre_vals['mpred']]
    mpred_new = {}
    for lab in labels_all:
        v = pred0[lab] if lab in pred0 else 0
        if lab in pre_vals['mpred']:
            val, n = pre_vals['mpred'][lab]
            mpred_new[lab] = ref_stat(b, val, n, v)
        else:
            mpred_new[lab] = ref_stat(b, 0, 0, v)
    mp_norm = normalised(mpred_new)
    got_mp = ex.marginal_prediction
    env.claim(f"marginal_prediction_keys{tag}", set(got_mp.keys()) == set(mp_norm.keys()))
    env.claim(f"marginal_prediction_is_normalised_running_mean{tag}",
              And(*[eq(got_mp[k], mp_norm[k]) for k in mp_norm if k in got_mp]))
    l_prev = loss.value(y, mp_norm)
    sl0 = l_prev
    contrib = {}
    revealed = []
    for j, f in enumerate(order):
        revealed.append(f)
        c = calls[j]
        env.claim(f"imputer_asked_for_q_samples{tag}", c['n'] == q and len(c['preds']) == q)
        v_j = mean_prediction(c['preds'])
        l_j = loss.value(y, v_j)
        contrib[f] = l_prev - l_j
        l_prev = l_j
    # model inputs: exactly the complement of the coalition is imputed (revealed features keep x's own value)
    per = 1 if b['defaults'] is not None else q     # DefaultImputer evaluates once and repeats the prediction
    n_eval = 1 + len(names) * per
    minputs = model.calls[-n_eval:]
    env.claim(f"model_evaluations{tag}", len(model.calls) - b.get('calls_before', 0) == n_eval)
    if len(minputs) == n_eval:
        ok_in = all(same_term(minputs[0][f], x[f]) for f in names)
        pos = 1
        for j in range(len(order)):
            for _s in range(per):
                z = minputs[pos]
                pos += 1
                for f in names:
                    if f in order[:j + 1]:
                        ok_in = ok_in and same_term(z[f], x[f])
                    elif b['defaults'] is not None:
                        ok_in = ok_in and same_term(z[f], b['defaults'][f])
                    else:
                        ok_in = ok_in and any(same_term(z[f], r[f]) for r in b['rows_now'])
        env.claim(f"coalition_keeps_x_complement_from_background{tag}", ok_in)
    # last chain element is the model loss (empty complement)
    env.claim(f"chain_ends_at_model_loss{tag}", eq(l_prev, model_loss_c))
    # ---- running statistics
    imp_new, var_new = {}, {}
    for f in names:
        val, n = pre_vals['imp'][f]
        imp_new[f] = ref_stat(b, val, n, contrib[f])
        vval, vn = pre_vals['var'][f]
        dlt = contrib[f] - imp_new[f]
        var_new[f] = ref_stat(b, vval, vn, dlt * dlt)
    got_imp, got_var = ex.importance_values, ex.variances
    env.claim(f"importance_keys{tag}", set(got_imp.keys()) == set(names) and set(got_var.keys()) == set(names))
    for f in names:
        env.claim(f"importance_is_running_stat_of_chain_reduction{tag}", eq(got_imp[f], imp_new[f]))
        env.claim(f"variance_uses_updated_importance{tag}", eq(got_var[f], var_new[f]))
    mval, mn = pre_vals['marg']
    oval, on = pre_vals['model']
    env.claim(f"marginal_loss{tag}", eq(ex.marginal_loss, ref_stat(b, mval, mn, sl0) + direction))
    env.claim(f"model_loss{tag}", eq(ex.model_loss, ref_stat(b, oval, on, model_loss_c) + direction))
    env.canary(f"credit_previous_feature{tag}",
               And(*[eq(got_imp[f], imp_new[order[(order.index(f) + 1) % len(order)]]) for f in names])
               if len(names) > 1 else eq(got_imp[names[0]], imp_new[names[0]] + 1))



def _step(env, cfg):
    b = build_incremental(env, IncrementalSage, dict(cfg, eff_inv=False))
    b['bigger'] = cfg.get('bigger', False)
    ex, pre, names = b['ex'], b['pre'], b['names']
    if cfg.get('partial_labels'):
        # the tracker only knows label 'a' so far, the model now also emits 'b' (label set grows)
        mv = ex._marginal_prediction_tracker
        del mv.tracked_value['b']
        mv._tracked_keys.discard('b')
        del pre['mpred']['b']
    if cfg.get('swap_labels'):
        from .C01 import _swap_label
        _swap_label(env, ex, pre)
    N = pre['N']
    pre_vals = {'imp': {f: (pre['imp'][f]['val'], N) for f in names},
                'var': {f: (pre['var'][f]['val'], N) for f in names},
                'marg': (pre['marg']['val'], N), 'model': (pre['model']['val'], N),
                'mpred': {l: (pre['mpred'][l]['val'], N) for l in pre['mpred']}}
    b['rows_now'] = list(b['rows'])
    b['calls_before'] = len(b['model'].calls)
    kw = {}
    if 'q_call' in cfg:
        kw['n_inner_samples'] = cfg['q_call']
        b['q'] = cfg['q_call']
    ret = guarded(env, 'explain_one', b['ex'].explain_one, b['x'], b['y'], **kw)
    _reference_and_claims(env, b, pre_vals, b['x'], b['y'])
    env.claim('returns_importance_values', And(*[eq(ret[f], ex.importance_values[f]) for f in names]))
    env.claim('model_outputs_not_modified_by_the_library', b['model'].outputs_intact())
    if cfg.get('calls', 1) >= 2:
        N1 = N + 1
        pre2 = {'imp': {f: (ex.importance_values[f], N1) for f in names}, 'var': {f: (ex.variances[f], N1) for f in names},
                'marg': (ex._marginal_loss_tracker.get(), N1), 'model': (ex._model_loss_tracker.get(), N1),
                'mpred': {l: (v, N1) for l, v in ex._marginal_prediction_tracker.get().items()}}
        b['rows_now'] = list(b['storage'].get_data()[0])
        b['calls_before'] = len(b['model'].calls)
        x2, y2 = sym_row(env, names, 'x2'), env.real('y2')
        guarded(env, 'explain_one#2', ex.explain_one, x2, y2)
        _reference_and_claims(env, b, pre2, x2, y2, tag='_second_call')
    if env.mode == 'sym' and env.stats.vacuity_witnesses < 2:
        env.witness()


def _grow(env, cfg):
    """fresh explainer; the model's label set grows from {a} to {a,b} on the third observation"""
    cfg = dict(cfg, state='fresh', m=0, labels=2)
    b = build_incremental(env, IncrementalSage, cfg)
    ex, names, model = b['ex'], b['names'], b['model']
    b['bigger'] = False
    full_one = model._one

    def only_a(x):
        out = full_one(x)
        return {'a': out['a']}
    stream = []
    for t in range(3):
        x = sym_row(env, names, f"x{t}")
        y = env.real(f"y{t}")
        model._one = only_a if t < 2 else full_one
        real_out = model.out
        model.out = (lambda xx, _o=real_out: {'a': _o(xx)['a']}) if t < 2 else real_out
        if t >= 1:
            N = t - 1
            pre_vals = {'imp': {f: (ex.importance_values.get(f, 0), N) for f in names},
                        'var': {f: (ex.variances.get(f, 0), N) for f in names},
                        'marg': (ex._marginal_loss_tracker.get(), N), 'model': (ex._model_loss_tracker.get(), N),
                        'mpred': {l: (v, N) for l, v in ex._marginal_prediction_tracker.get().items()}}
            b['rows_now'] = list(ex._storage.get_data()[0])
        b['calls_before'] = len(model.calls)
        guarded(env, 'explain_one', ex.explain_one, x, y)
        if t >= 1:
            _reference_and_claims(env, b, pre_vals, x, y, tag=f"_t{t + 1}")
        model.out = real_out
        stream.append((x, y))
    env.claim('label_set_grew', set(ex.marginal_prediction.keys()) == {'a', 'b'})


def _long(env, cfg):
    """a fresh explainer over T real calls (default-value imputer: no background draws, d! orders per call); before every
    call the running statistics are read through the explainer, after it they are compared with the reference"""
    cfg = dict(cfg, state='fresh', m=0)
    b = build_incremental(env, IncrementalSage, cfg)
    ex, names, model = b['ex'], b['names'], b['model']
    b['bigger'] = False
    for t in range(cfg['T']):
        x, y = sym_row(env, names, f"x{t}"), env.real(f"y{t}")
        if t >= 1:
            N = t - 1
            pre_vals = {'imp': {f: (ex.importance_values.get(f, 0), N) for f in names},
                        'var': {f: (ex.variances.get(f, 0), N) for f in names},
                        'marg': (ex._marginal_loss_tracker.get(), N), 'model': (ex._model_loss_tracker.get(), N),
                        'mpred': {l: (v, N) for l, v in ex._marginal_prediction_tracker.get().items()}}
            b['rows_now'] = list(ex._storage.get_data()[0])
        b['calls_before'] = len(model.calls)
        guarded(env, 'explain_one', ex.explain_one, x, y)
        if t >= 1:
            _reference_and_claims(env, b, pre_vals, x, y, tag=f"_t{t + 1}")


META['explanation'] += ' Further groups: per-call n_inner overrides, swapped / input-dependent label sets, memoising model, second explanation after a storage update, long reference runs from a fresh explainer.'

META['explanation'] += ' Label alphabets include a mixed-type one ([1, 2, "unknown"]) and integer class labels.'
