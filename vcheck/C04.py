"""C04 - PFI / SAGE updates are unbiased: uniform feature orders and background rows.

Probabilistic symbolic execution with discrete draws: every path of the real code carries the exact weight of its draws
(product of 1/requested-range).  E_code[contribution_f] = sum_paths weight * contribution is a linear combination of
uninterpreted loss terms; the oracle enumerates, independently, all d! orders and all background-row tuples of the WHOLE
storage / data set with uniform weights.  One validity query per feature: E_code == E_oracle for all loss / model values.
A counterexample is replayed by exhaustive enumeration of the real code's draws with Fraction arithmetic.
"""
import itertools
import math
from fractions import Fraction

import z3

from symx import And, Or, Not, Implies, eq, same_term, Sym, explore_concrete
from symx.core import Failure, lift, to_real
from symx.stubs import patched, UFModel, UFLoss
from .common import guarded, total, sym_row, names_for
from .expl import build_incremental, mean_prediction, LoggingImputer

from ixai.explainer import IncrementalPFI, IncrementalSage
from ixai.explainer.sage import BatchSage, IntervalSage

ID = 'C04'
CLASSES = {'IncrementalSage': IncrementalSage, 'IncrementalPFI': IncrementalPFI}

META = {
    'level': 'other',
    'explanation': 'Exact expectation over the library\'s own discrete random draws by weighted path enumeration of the real code '
                   '(weights = product of 1/requested range), compared by z3 with the Shapley value / expected loss increase '
                   'obtained by independent exhaustive enumeration of orders and background rows over the whole storage; model and '
                   'loss uninterpreted, data symbolic: a biased index, a prefix-only draw, a fixed order or a shared row under the '
                   'product strategy changes the weights and is refuted with a concrete model / loss / data set.',
    'bounds': {'quick': {'incremental (d,m,q)': 'SAGE (2,3,1) (2,2,2) (3,2,1); PFI (2,3,2) (3,3,1)', 'batch (d,n,q)': '(2,2,1) (2,2,2) (1,3,1)'},
               'thorough': {'incremental (d,m,q)': '+ SAGE (3,3,1) (2,3,2) (3,2,2) (2,4,2); PFI (3,3,2) (4,3,1) (2,4,3)', 'batch (d,n,q)': '+ (3,2,1) (2,3,1)'}},
    'outside': ['quality of the underlying generators (randrange / randint / permutation are trusted to be uniform over the range '
                'they are ASKED for)', 'sizes beyond the bounds', 'tree imputer', 'continuous draws (reservoir storages decide what is '
                'stored - C08 / C09; here the storage content is given)'],
    'assumptions': ['random.randrange(n), random.randint(a,b), np.random.permutation(d) uniform over the requested range',
                    'model / loss deterministic (uninterpreted functions)'],
}

MAX_PATHS = {'quick': 400000, 'thorough': 3000000}


def configs(tier):
    cfgs = []

    def add(**k):
        if k not in cfgs:
            cfgs.append(k)
    sage = [(2, 3, 1), (2, 2, 2), (3, 2, 1)] + ([(3, 3, 1), (2, 3, 2), (3, 2, 2), (2, 4, 2)] if tier == 'thorough' else [])
    pfi = [(2, 3, 2), (3, 3, 1)] + ([(3, 3, 2), (4, 3, 1), (2, 4, 3)] if tier == 'thorough' else [])
    for strat in ('joint', 'product'):
        for (d, m, q) in sage:
            add(group='inc', cls='IncrementalSage', d=d, m=m, q=q, imputer=strat, storage='batch',
                _cost=math.factorial(d) * m ** (q * d * (d if strat == 'product' else 1)))
        for (d, m, q) in pfi:
            add(group='inc', cls='IncrementalPFI', d=d, m=m, q=q, imputer=strat, storage='batch', _cost=m ** (q * d))
    for strat in ('joint', 'product'):
        add(group='inc', cls='IncrementalSage', d=2, m=2, q=1, imputer=strat, storage='batch', context_key=True, _cost=16)
        add(group='inc', cls='IncrementalPFI', d=2, m=2, q=1, imputer=strat, storage='batch', context_key=True, _cost=16)
    add(group='inc', cls='IncrementalPFI', d=2, m=3, q=1, q_call=2, imputer='joint', storage='batch', _cost=81)
    add(group='inc', cls='IncrementalPFI', d=2, m=2, q=2, q_call=1, imputer='product', storage='batch', _cost=16)
    add(group='inc', cls='IncrementalSage', d=2, m=2, q=1, q_call=2, imputer='joint', storage='batch', _cost=64)
    add(group='inc', cls='IncrementalSage', d=2, m=2, q=2, q_call=1, imputer='joint', storage='batch', _cost=16)
    for st in ('interval', 'geometric', 'uniform'):
        add(group='inc', cls='IncrementalSage', d=2, m=2, q=1, imputer='joint', storage=st, _cost=16)
        add(group='inc', cls='IncrementalPFI', d=2, m=3, q=1, imputer='joint', storage=st, _cost=16)
    for cls in ('IncrementalPFI', 'IncrementalSage'):
        for st in ('interval', 'geometric', 'uniform', 'batch'):
            for strat in ('joint', 'product'):
                add(group='inc_history', cls=cls, d=1 if cls == 'IncrementalPFI' else 2, m=2, cap=2, q=1, imputer=strat, storage=st,
                    _cost=300)
    batch = [(2, 2, 1), (2, 2, 2), (1, 3, 1)] + ([(3, 2, 1), (2, 3, 1)] if tier == 'thorough' else [])
    for (d, n, q) in batch:
        for mode in ('many', 'original', 'interval'):
            add(group='batch', mode=mode, d=d, n=n, q=q, _cost=(math.factorial(d) * n ** (d * q)) ** n)
    add(group='batch', mode='many', d=2, n=2, q=1, strat='product', _cost=100)
    return cfgs


def finding_key(cfg, name):
    if cfg['group'] == 'batch':
        return f"batch/{cfg['mode']}/{name.split('[')[0]}"
    return f"{cfg['group']}/{cfg['cls']}/{cfg.get('imputer')}/{name.split('[')[0]}"


def scenario(env, cfg):
    if env.mode == 'conc' and not isinstance(env, _fork_cls()):
        return _concrete_replay(env, cfg)
    with patched(env) as ctx:
        return _one_path(env, cfg, ctx)


def _fork_cls():
    from symx.core import ConcForkEnv
    return ConcForkEnv


# ---- one path of the real code ----------------------------------------------------------------------

def _one_path(env, cfg, ctx):
    if cfg['group'] == 'inc':
        return _inc_path(env, cfg, ctx)
    if cfg['group'] == 'inc_history':
        return _inc_history_path(env, cfg, ctx)
    return _batch_path(env, cfg, ctx)


def _inc_history_path(env, cfg, ctx):
    """two explanations by the same explainer / imputer; the storage (at capacity) is updated in between.  The expectation of
    the SECOND call is compared with the exact value for the storage content at that moment."""
    from .common import sym_row
    cls = CLASSES[cfg['cls']]
    b = build_incremental(env, cls, dict(cfg, mode='static', eff_inv=False))
    ex, names = b['ex'], b['names']
    if cfg['storage'] == 'geometric':
        b['storage'].constant_probability = 1.0          # every arrival replaces a slot: the content always changes
    guarded(env, 'explain_one#1', ex.explain_one, b['x'], b['y'], update_storage=True)
    rows_now = list(b['storage'].get_data()[0])
    w_before, _ = env.path_weight()
    fed, marg = [], []
    real_update = ex._importance_trackers.update
    ex._importance_trackers.update = lambda values: (fed.append(dict(values)), real_update(values))[1]
    if cls is IncrementalSage:
        real_m = ex._marginal_loss_tracker.update
        ex._marginal_loss_tracker.update = lambda v: (marg.append(v), real_m(v))[1]
    x2, y2 = sym_row(env, names, 'x2'), env.real('y2')
    guarded(env, 'explain_one#2', ex.explain_one, x2, y2, update_storage=False)
    if len(fed) != 1:
        env.fail('importance_tracker_fed_once', f"{len(fed)} updates")
        return None
    w, _ = env.path_weight()
    b2 = dict(b, x=x2, y=y2, rows=rows_now)
    # group the paths by what the storage holds before the second call (reservoirs replace a random slot)
    key = tuple(id(r) for r in rows_now) if env.mode == 'sym' else tuple(tuple(sorted((k, str(v)) for k, v in r.items())) for r in rows_now)
    return {'contrib': {f: fed[0][f] for f in names}, 'weight': w, 'b': b2, 'sl0': marg[0] if marg else None,
            'pc': list(getattr(env, 'pc', [])), 'history_key': _rows_key(rows_now, b)}


def _rows_key(rows_now, b):
    """which of the known row objects (old rows / first observation) are stored, by position"""
    pool = list(b['rows']) + [b['x']]
    return tuple(next((i for i, p in enumerate(pool) if p is r), -1) for r in rows_now)


def _inc_path(env, cfg, ctx):
    cls = CLASSES[cfg['cls']]
    b = build_incremental(env, cls, dict(cfg, mode='static', eff_inv=False))
    ex, names = b['ex'], b['names']
    fed, marg = [], []
    real_update = ex._importance_trackers.update
    ex._importance_trackers.update = lambda values: (fed.append(dict(values)), real_update(values))[1]
    if cls is IncrementalSage:
        real_m = ex._marginal_loss_tracker.update
        ex._marginal_loss_tracker.update = lambda v: (marg.append(v), real_m(v))[1]
    kw = {}
    if 'q_call' in cfg:                      # the number of inner samples is overridden for this call only
        kw['n_inner_samples'] = cfg['q_call']
        b = dict(b, q=cfg['q_call'])
    guarded(env, 'explain_one', ex.explain_one, b['x'], b['y'], update_storage=False, **kw)
    if len(fed) != 1:
        env.fail('importance_tracker_fed_once', f"{len(fed)} updates")
        return None
    w, _ = env.path_weight()
    return {'contrib': {f: fed[0][f] for f in names}, 'weight': w, 'b': b, 'sl0': marg[0] if marg else None,
            'pc': list(getattr(env, 'pc', []))}


def _batch_path(env, cfg, ctx):
    d, n, q = cfg['d'], cfg['n'], cfg['q']
    names = names_for('str', d)
    model = UFModel(env, names)
    loss = UFLoss(env)
    kw = {'n_inner_samples': q}
    cls = IntervalSage if cfg['mode'] == 'interval' else BatchSage
    if cls is IntervalSage:
        kw.update(interval_length=1, storage_length=n)
    ex = guarded(env, 'ctor', cls, model, names, loss, **kw)
    if cfg.get('strat') == 'product':
        ex._imputer.sampling_strategy = 'product'
    data = [(sym_row(env, names, f"x{i}"), env.real(f"y{i}")) for i in range(n)]
    for (x, y) in data[:-1]:
        guarded(env, 'update_storage', ex.update_storage, x, y)
    x, y = data[-1]
    ekw = {'verbose': False}
    if cfg['mode'] == 'original':
        ekw['original_sage'] = True
    guarded(env, 'explain_one', ex.explain_one, x, y, **ekw)
    w, _ = env.path_weight()
    return {'contrib': dict(ex.importance_values), 'weight': w, 'data': data, 'model': model, 'loss': loss, 'names': names,
            'pc': list(getattr(env, 'pc', []))}


# ---- the independent oracle -------------------------------------------------------------------------

def _coalition_value(model, loss, names, x, y, S, rows, q, strat):
    """E over background draws of L(y, mean of q model outputs with the features outside S imputed)"""
    rest = [f for f in names if f not in S]
    if not rest:
        return loss.value(y, model.out(x))
    m = len(rows)
    per_sample = list(range(m)) if strat == 'joint' else list(itertools.product(range(m), repeat=len(rest)))
    acc = 0
    count = 0
    for combo in itertools.product(per_sample, repeat=q):
        preds = []
        for pick in combo:
            z = dict(x)
            if strat == 'joint':
                for f in rest:
                    z[f] = rows[pick][f]
            else:
                for f, r in zip(rest, pick):
                    z[f] = rows[r][f]
            preds.append(model.out(z))
        acc = acc + loss.value(y, mean_prediction(preds))
        count += 1
    return acc / count


def _shapley(model, loss, names, x, y, rows, q, strat, v_empty):
    d = len(names)
    cache = {}

    def V(S):
        key = tuple(sorted(S, key=names.index))
        if not key:
            return v_empty
        if key not in cache:
            cache[key] = _coalition_value(model, loss, names, x, y, list(key), rows, q, strat)
        return cache[key]
    phi = {f: 0 for f in names}
    perms = list(itertools.permutations(names))
    for pi in perms:
        for j, f in enumerate(pi):
            phi[f] = phi[f] + (V(pi[:j]) - V(pi[:j + 1]))
    return {f: phi[f] / len(perms) for f in names}


def _oracle_inc(cfg, r):
    b = r['b']
    names, model, loss, x, y, rows, q = b['names'], b['model'], b['loss'], b['x'], b['y'], b['rows'], b['q']
    strat = cfg['imputer']
    if cfg['cls'] == 'IncrementalPFI':
        orig = loss.value(y, model.out(x))
        return {f: _coalition_value(model, loss, names, x, y, [g for g in names if g != f], rows, 1, 'joint') - orig for f in names}
    return _shapley(model, loss, names, x, y, rows, q, strat, r['sl0'])


def _oracle_batch(cfg, r):
    names, model, loss, data = r['names'], r['model'], r['loss'], r['data']
    rows = [x for x, _ in data]
    base = mean_prediction([model.out(x) for x in rows])
    strat = cfg.get('strat', 'joint')
    n = len(data)
    acc = {f: 0 for f in names}
    for (x, y) in data:
        phi = _shapley(model, loss, names, x, y, rows, cfg['q'], strat, loss.value(y, base))
        for f in names:
            acc[f] = acc[f] + phi[f]
    return {f: acc[f] / n for f in names}


# ---- aggregation ------------------------------------------------------------------------------------

def _expected(results):
    results = [r for r in results if r]
    names = list(results[0]['contrib'].keys())
    exp = {f: 0 for f in names}
    tot = Fraction(0)
    for r in results:
        tot += r['weight']
        for f in names:
            exp[f] = exp[f] + r['contrib'][f] * r['weight']
    return exp, tot, results[0]


def post_explore(env, cfg, results):
    if not [r for r in results if r]:
        return
    if cfg['group'] == 'inc_history':
        return _post_history(env, cfg, [r for r in results if r])
    exp, tot, r0 = _expected(results)
    ok, _m = env.global_claim('path_weights_sum_to_one', z3.BoolVal(tot == 1))
    if ok is False:
        env.failures.append(Failure('path_weights_sum_to_one', [], None, f"total weight of the explored draw sequences is {tot}"))
    from symx import core
    prev, core.CUR = core.CUR, env       # the oracle builds symbolic terms (divisions by concrete counts only)
    try:
        env.start_path([])
        env.stats.paths -= 1
        oracle = _oracle_inc(cfg, r0) if cfg['group'] == 'inc' else _oracle_batch(cfg, r0)
    finally:
        core.CUR = prev
    for f in exp:
        name = f"expected_contribution_is_exact_value[{f}]"
        ok, model = env.global_claim(name, to_real(lift(exp[f])) == to_real(lift(oracle[f])), assumptions=r0['pc'])
        if ok is False:
            env.failures.append(Failure(name.split('[')[0], [], model,
                                        f"E over the library's draws of the contribution of {f!r} != exhaustive-enumeration value"))
    f0 = list(exp)[0]
    s = z3.Solver()
    s.add(to_real(lift(exp[f0])) != to_real(lift(oracle[f0])) + 1)
    env.stats.canaries += 1
    good = str(s.check()) == 'sat'
    env.stats.canaries_refuted += int(good)
    env.canary_seen['shifted_expectation_refuted'] = good


def _post_history(env, cfg, results):
    """conditional expectation of the second call given the storage content it started from"""
    from symx import core
    groups = {}
    for r in results:
        groups.setdefault(r['history_key'], []).append(r)
    # (no sum-to-one claim here: whether a reservoir accepts the arrival is a non-probabilistic fork of the symbolic state;
    #  expectations are therefore taken conditionally on the storage content before the second call)
    for key, rs in sorted(groups.items()):
        wsum = sum((r['weight'] for r in rs), Fraction(0))
        names = list(rs[0]['contrib'].keys())
        exp = {f: 0 for f in names}
        for r in rs:
            for f in names:
                exp[f] = exp[f] + r['contrib'][f] * (r['weight'] / wsum)
        prev, core.CUR = core.CUR, env
        try:
            env.start_path([])
            env.stats.paths -= 1
            oracle = _oracle_inc(cfg, rs[0])
        finally:
            core.CUR = prev
        for f in names:
            name = f"expected_contribution_after_history[{f},{key}]"
            ok, model = env.global_claim(name, to_real(lift(exp[f])) == to_real(lift(oracle[f])), assumptions=rs[0]['pc'])
            if ok is False:
                env.failures.append(Failure('expected_contribution_after_history', [], model,
                                            f"second explanation, storage content {key}: E over the draws of the contribution of {f!r} "
                                            f"!= exact value for the rows stored at that moment"))
    env.canary_seen['history_groups_found'] = len(groups) >= 1


# ---- concrete replay: exhaustive enumeration of the real code's draws with Fractions ------------------

def _concrete_replay(env, cfg):
    def run(fenv):
        with patched(fenv) as ctx:
            return _one_path(fenv, cfg, ctx)
    res = explore_concrete(env, run)
    results = []
    for r, w in res:
        if r:
            r['weight'] = w
            results.append(r)
    if not results:
        return
    if cfg['group'] == 'inc_history':
        groups = {}
        for r in results:
            groups.setdefault(r['history_key'], []).append(r)
        for key, rs in sorted(groups.items()):
            wsum = sum((r['weight'] for r in rs), Fraction(0))
            for f in rs[0]['contrib']:
                e = sum((Fraction(r['contrib'][f]) * (r['weight'] / wsum) for r in rs), Fraction(0))
                o = Fraction(_oracle_inc(cfg, rs[0])[f])
                env.claim('expected_contribution_after_history', e == o,
                          detail=f"second explanation, storage content {key}, feature {f!r}: exact expectation over the draws {e}, "
                                 f"exact value for the rows stored at that moment {o}")
        return
    exp, tot, r0 = _expected(results)
    env.claim('path_weights_sum_to_one', tot == 1)
    oracle = _oracle_inc(cfg, r0) if cfg['group'] == 'inc' else _oracle_batch(cfg, r0)
    for f in exp:
        env.claim('expected_contribution_is_exact_value', Fraction(exp[f]) == Fraction(oracle[f]),
                  detail=f"feature {f!r}: exact expectation over the library's {len(results)} equally explored draw sequences is "
                         f"{Fraction(exp[f])}, exhaustive enumeration over the whole storage gives {Fraction(oracle[f])}")


META['explanation'] += ' History group: conditional expectation of a SECOND explanation given the storage content it started from (an imputer that caches the storage is biased there).'
