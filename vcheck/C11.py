"""C11 - SlidingWindowTracker reports statistics of exactly the last min(n, k) values (black-box oracle)."""
from symx import And, Or, Not, Implies, eq, is_nonfinite
from symx.stubs import patched
from .common import guarded, total

from ixai.utils.tracker import SlidingWindowTracker

ID = 'C11'

META = {
    'level': 'model_checking',
    'explanation': 'Bounded symbolic execution of the real constructor and update on the installed NumPy (object-dtype buffer, real '
                   'indexing semantics, np.NaN looked up for real): window size k, stream of n <= 2k+3 distinct symbolic values; '
                   'after every prefix z3 proves mean*c = sum of the last c values, var = (1/c) sum (v-mean)^2, std >= 0 and '
                   'std^2 = var with c = min(n, k). The oracle is black-box (last-c semantics), so any correct ring-buffer layout passes.',
    'bounds': {'quick': {'k': '1..4', 'n': '<= 2k+3'}, 'thorough': {'k': '1..12', 'n': '<= 3k+3'}},
    'outside': ['windows larger than the bound', 'floating-point rounding of nanmean/nanvar', 'NaN as an input value'],
    'assumptions': ['np.nanmean / nanvar / nanstd = mean / population variance / its root over the non-NaN buffer entries',
                    'float(x) on a NumPy scalar is the identity on its value'],
}


MAX_PATHS = {'quick': 3000, 'thorough': 20000}


def configs(tier):
    kmax = 4 if tier == 'quick' else 12
    cfgs = []
    for k in range(1, kmax + 1):
        n = 2 * k + 3 if tier == 'quick' else 3 * k + 3
        cfgs.append(dict(group='window', k=k, n=n, _cost=n * n))
        if k <= 4:
            cfgs.append(dict(group='window', k=k, n=n, reads='var_first', _cost=n * n))
            cfgs.append(dict(group='window', k=k, n=n, reads='sparse', _cost=n * n))
    cfgs.append(dict(group='ctor'))
    for k in (2, 3):
        cfgs.append(dict(group='constant_window_fp', k=k, _cost=100))
    for k in ((16, 49, 64, 100, 257) if tier == 'quick' else (16, 31, 32, 33, 49, 64, 98, 100, 128, 255, 256, 257, 300, 513, 1000)):
        cfgs.append(dict(group='large_window', k=k, _cost=k))
    for k in (2, 3, 4):
        cfgs.append(dict(group='rejected_value', k=k, _cost=50))
    for k in (1, 2, 3):
        cfgs.append(dict(group='independent_copies', k=k, _cost=50))
    return cfgs


def finding_key(cfg, name):
    base = name.split('@')[0]
    return f"{cfg['group']}/{base}"


def scenario(env, cfg):
    with patched(env):
        return globals()['_' + cfg['group']](env, cfg)


def _ctor(env, cfg):
    for k in (1, 3):
        t = guarded(env, 'constructor_on_installed_numpy', SlidingWindowTracker, k)
        env.claim('window_size_kept', t.k == k)
    try:
        SlidingWindowTracker(0)
        env.claim('zero_window_rejected', False)
    except AssertionError:
        env.claim('zero_window_rejected', True)


def _window(env, cfg):
    k, n = cfg['k'], cfg['n']
    t = guarded(env, 'constructor_on_installed_numpy', SlidingWindowTracker, k)
    vs = [env.real(f"v{i}") for i in range(n)]
    for i, v in enumerate(vs):
        ret = guarded(env, 'update', t.update, v)
        env.claim('update_returns_self', ret is t)
        c = min(i + 1, k)
        last = vs[i + 1 - c:i + 1]
        mean_ref = total(last) / c
        var_ref = total([(x - mean_ref) * (x - mean_ref) for x in last]) / c
        tag = f"@n={i + 1}"
        if cfg.get('reads') == 'var_first':
            guarded(env, 'var', lambda: t.var)
            guarded(env, 'std', lambda: t.std)
        elif cfg.get('reads') == 'sparse' and i % 3 != 2:
            continue
        m = guarded(env, 'mean', lambda: t.mean)
        env.claim('mean_of_last_min_n_k' + tag, (not is_nonfinite(m)) and eq(m, mean_ref), detail=f"k={k}, n={i + 1}")
        env.claim('get_is_mean' + tag, eq(t(), m))
        var = guarded(env, 'var', lambda: t.var)
        env.claim('variance_of_last_min_n_k' + tag, (not is_nonfinite(var)) and eq(var, var_ref), detail=f"k={k}, n={i + 1}")
        if i + 1 <= k + 2:
            std = guarded(env, 'std', lambda: t.std)
            env.claim('std_is_root_of_variance' + tag, And(std >= 0, eq(std * std, var_ref)))
    if k <= 3:
        env.canary('window_not_whole_stream', eq(t.mean, total(vs) / n) if n > k else False)


def _rejected_value(env, cfg):
    """a value the buffer cannot store (the real float buffer raises on it) is rejected without disturbing the window:
    the statistics afterwards are those of the last min(n, k) ACCEPTED values.  Runs on the real float array (the value
    that is refused must reach NumPy), so the accepted values are concrete here; the position of the refused update and
    the kind of bad value are enumerated."""
    import sys
    import numpy as real_np
    mod = sys.modules['ixai.utils.tracker.sliding_window']
    saved = (mod.np, mod.__dict__.get('float'))
    mod.np = real_np
    mod.__dict__.pop('float', None)
    try:
        k = cfg['k']
        n = 2 * k + 3
        pos = env.choose(n, label='position_of_refused_update')
        # (None is NOT refused by NumPy: it is stored as NaN, which the property excludes as an input)
        bad = ['x', 10 ** 400, [1.0, 2.0]][env.choose(3, label='kind_of_bad_value')]
        t = SlidingWindowTracker(k)
        accepted = []
        for i in range(n):
            if i == pos:
                try:
                    t.update(bad)
                    env.claim('bad_value_is_refused', False, detail=repr(bad))
                except (TypeError, ValueError, OverflowError):
                    pass
            v = float((7 * i + 3) % 11) + 0.5 * i
            t.update(v)
            accepted.append(v)
            last = accepted[-k:]
            mean = sum(last) / len(last)
            var = sum((a - mean) ** 2 for a in last) / len(last)
            env.claim('window_of_accepted_values_after_a_refused_one', abs(t.mean - mean) < 1e-9 and abs(t.var - var) < 1e-9,
                      detail=f"k={k}: refused {bad!r} before accepted value #{pos + 1}; after {i + 1} accepted values mean {t.mean} != {mean}")
    finally:
        mod.np = saved[0]
        if saved[1] is not None:
            mod.__dict__['float'] = saved[1]


META['explanation'] += ' Further groups: different read patterns (var first, sparse reads); a value the real float buffer refuses leaves the window intact.'


def _large_window(env, cfg):
    """window sizes far beyond the bound of the main group: the mean (a linear claim) of the last min(n, k) symbolic values
    around the fill point, the first wrap-around and the second one"""
    k = cfg['k']
    n = 2 * k + 3
    t = guarded(env, 'constructor_on_installed_numpy', SlidingWindowTracker, k)
    vs = [env.real(f"v{i}") for i in range(n)]
    probes = {1, 2, k - 1, k, k + 1, k + 2, 2 * k - 1, 2 * k, 2 * k + 1, 2 * k + 2, 2 * k + 3}
    for i, v in enumerate(vs):
        guarded(env, 'update', t.update, v)
        if i + 1 in probes:
            c = min(i + 1, k)
            m = guarded(env, 'mean', lambda: t.mean)
            env.claim('mean_of_last_min_n_k_large_window', (not is_nonfinite(m)) and eq(m * c, total(vs[i + 1 - c:i + 1])),
                      detail=f"k={k}, n={i + 1}")


def _constant_window_fp(env, cfg):
    """standard model of binary64 rounding: a window holding k copies of one (arbitrarily large) value c reports a variance
    of at most 64 u^2 c^2 and a mean within 4 u |c| of c - i.e. no catastrophic cancellation for data with a large offset.
    (A one-pass E[x^2] - E[x]^2 formula errs by about u c^2 and is refuted.)"""
    import z3
    from symx.fp import FPSym, U
    from symx import Sym, And
    k = cfg['k']
    if env.mode != 'sym':
        return _offset_window_replay(env, k)
    t = guarded(env, 'constructor_on_installed_numpy', SlidingWindowTracker, k)
    c = FPSym(z3.Real('c'))
    env.assume(Sym(c.t) >= 1)
    for _ in range(k + 1):
        guarded(env, 'update', t.update, c)
    var = guarded(env, 'var', lambda: t.var)
    mean = guarded(env, 'mean', lambda: t.mean)
    cc = Sym(c.t)
    env.claim('variance_of_a_constant_window_is_negligible', And(Sym(var.t) <= 64 * U * U * cc * cc, Sym(var.t) >= -64 * U * U * cc * cc))
    env.claim('mean_of_a_constant_window', And(Sym(mean.t) - cc <= 4 * U * cc, Sym(mean.t) - cc >= -4 * U * cc))


def _offset_window_replay(env, k):
    """concrete binary64 experiment for a refuted floating-point obligation: windows with a large common offset"""
    import sys
    import numpy as real_np
    from fractions import Fraction
    mod = sys.modules['ixai.utils.tracker.sliding_window']
    saved = (mod.np, mod.__dict__.get('float'))
    mod.np = real_np
    mod.__dict__.pop('float', None)
    try:
        worst = None
        for off in (1.7e9, 2.0 ** 40, 1e8):
            t = SlidingWindowTracker(k)
            vals = [off + i for i in range(k + 2)]
            for v in vals:
                t.update(v)
            last = [Fraction(v) for v in vals[-k:]]
            m = sum(last) / k
            var = sum((a - m) ** 2 for a in last) / k
            err = abs(Fraction(float(t.var)) - var) if t.var == t.var else Fraction(10 ** 9)
            rel = float(err / var) if var else float(err)
            worst = rel if worst is None else max(worst, rel)
        env.claim('variance_of_a_constant_window_is_negligible', worst < 1e-6,
                  detail=f"window of {k} consecutive values with offsets up to 2^40: relative variance error {worst:.3g}")
    finally:
        mod.np = saved[0]
        if saved[1] is not None:
            mod.__dict__['float'] = saved[1]

META['explanation'] += ' constant_window_fp: under the standard rounding model a window of k copies of a symbolic value c reports a variance <= 64 u^2 c^2 (no catastrophic cancellation for data with a large offset); replay = binary64 runs against exact rationals. large_window: concrete window sizes up to 257 (thorough 1000), mean claims around the fill point and both wrap-arounds.'
META['outside'] = [o for o in META['outside'] if not o.startswith('floating-point rounding')] + ['floating-point rounding of nanmean / nanvar beyond the constant-window bound']


def _independent_copies(env, cfg):
    """deep copies of a window tracker (MultiValueTracker makes one per key) own their window: each reports the statistics
    of the last min(n, k) values IT was given"""
    import copy
    k = cfg['k']
    t = guarded(env, 'constructor_on_installed_numpy', SlidingWindowTracker, k)
    own = []
    for i in range(k):
        v = env.real(f"v{i}")
        guarded(env, 'update', t.update, v)
        own.append(v)
    c = guarded(env, 'deepcopy', copy.deepcopy, t)
    copy_vals = list(own)
    for i in range(k + 1):
        w = env.real(f"w{i}")
        guarded(env, 'update_copy', c.update, w)
        copy_vals.append(w)
        last = own[-k:]
        m = guarded(env, 'mean', lambda: t.mean)
        env.claim('original_window_untouched_by_updates_of_its_copy', eq(m * len(last), total(last)), detail=f"k={k}, after {i + 1} updates of the copy")
        lc = copy_vals[-k:]
        mc = guarded(env, 'mean', lambda: c.mean)
        env.claim('copy_reports_its_own_last_k_values', eq(mc * len(lc), total(lc)))
    u = env.real('u')
    guarded(env, 'update', t.update, u)
    own.append(u)
    lc = copy_vals[-k:]
    env.claim('copy_window_untouched_by_updates_of_the_original', eq(c.mean * len(lc), total(lc)))
    env.claim('original_continues_with_its_own_values', eq(t.mean * min(k, len(own)), total(own[-k:])))
