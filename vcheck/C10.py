"""C10 - Welford and exponential-smoothing trackers equal their closed forms (proof by induction).

All obligations run the shipped ``update`` / ``var`` / ``std`` code on symbolic state.
"""
from symx import And, Or, Not, Implies, eq, le, ite
from symx.stubs import patched
from .common import guarded, total, check_state_coverage

from ixai.utils.tracker import WelfordTracker, ExponentialSmoothingTracker

ID = 'C10'

META = {
    'level': 'proof',
    'explanation': 'Base case + inductive step over the stream length, state/value/alpha symbolic reals, stream length '
                   'unbounded by induction (update count N is a symbolic integer); explicit closed forms for short '
                   'streams tie the recurrences to the wording of the property.',
    'bounds': {
        'quick': {'induction': 'N symbolic (any stream length)', 'explicit_streams': 'Welford n<=5, smoothing n<=8'},
        'thorough': {'induction': 'N symbolic (any stream length)', 'explicit_streams': 'Welford n<=10, smoothing n<=16'},
    },
    'outside': ['floating-point rounding (values are mathematical reals; C20 covers rounding)',
                'the induction principle itself (base + step => all lengths) is a meta-argument, not machine-checked',
                'non-numeric or non-finite inputs'],
    'assumptions': ['python float arithmetic modelled as exact real arithmetic',
                    'x ** 0.5 modelled as the non-negative root s with s*s == x',
                    'Welford ghost invariant: N=0 -> state all zero; N>0 -> mean*N = S1, ssq*N = S2*N - S1^2, ssq >= 0, '
                    'lo <= mean <= hi for ghost running min/max'],
}


def configs(tier):
    nw = 5 if tier == 'quick' else 10
    ns = 8 if tier == 'quick' else 16
    cfgs = [{'group': 'welford_step'}, {'group': 'welford_base'}, {'group': 'welford_linear'}, {'group': 'welford_reads', '_cost': 50},
            {'group': 'smooth_reads'}, {'group': 'rejected_update'},
            {'group': 'smooth_step'}, {'group': 'smooth_base'}, {'group': 'smooth_linear'},
            {'group': 'smooth_ctor'}]
    cfgs += [{'group': 'independent_copies', 'cls': c} for c in ('welford', 'smoothing')]
    cfgs += [{'group': 'typed_values', 'cls': c} for c in ('welford', 'smoothing')]
    cfgs += [{'group': 'welford_explicit', 'n': n, '_cost': n} for n in range(1, nw + 1)]
    cfgs += [{'group': 'smooth_explicit', 'n': n, '_cost': n} for n in range(1, ns + 1)]
    return cfgs


def scenario(env, cfg):
    g = cfg['group']
    with patched(env):
        return globals()['_' + g](env, cfg)


# ---- Welford --------------------------------------------------------------------------------

def _welford_step(env, cfg):
    t = WelfordTracker()
    check_state_coverage(t)
    N = env.int('N')
    mean, ssq = env.real('mean'), env.real('ssq')
    S1, S2, lo, hi = env.real('S1'), env.real('S2'), env.real('lo'), env.real('hi')
    env.assume(N >= 0)
    env.assume(Implies(N == 0, And(mean == 0, ssq == 0, S1 == 0, S2 == 0)))
    env.assume(Implies(N > 0, And(mean * N == S1, ssq * N == S2 * N - S1 * S1, lo <= mean, mean <= hi, lo <= hi)))
    env.assume(ssq >= 0)
    t.N, t.tracked_value, t.sum_squares = N, mean, ssq
    v = env.real('v')
    # statistics reported BEFORE the update obey the invariant too (var at N = 0 is 0)
    var0 = guarded(env, 'var', lambda: t.var)
    env.claim('var_pre', And(Implies(N == 0, var0 == 0), Implies(N > 0, var0 * N == ssq)))
    ret = guarded(env, 'update', t.update, v)
    env.claim('update_returns_self', ret is t)
    S1n, S2n = S1 + v, S2 + v * v
    lon, hin = ite(N == 0, v, ite(v < lo, v, lo)), ite(N == 0, v, ite(v > hi, v, hi))
    env.claim('count', eq(t.N, N + 1))
    env.claim('mean_is_S1_over_n', eq(t.mean * t.N, S1n))
    env.claim('get_is_mean', And(eq(t.get(), t.mean), eq(t(), t.mean)))
    env.claim('ssq_inv', eq(t.sum_squares * t.N, S2n * t.N - S1n * S1n))
    env.claim('ssq_nonneg', t.sum_squares >= 0)
    env.claim('mean_between_min_max', And(lon <= t.mean, t.mean <= hin))
    var = guarded(env, 'var', lambda: t.var)
    env.claim('var_population', eq(var * t.N, t.sum_squares))
    std = guarded(env, 'std', lambda: t.std)
    env.claim('std_root_of_var', And(std >= 0, eq(std * std, var)))
    env.canary('mean_off_by_one', eq(t.mean * t.N, S1n + 1))
    env.canary('sample_variance', eq(var * (t.N - 1), t.sum_squares))
    env.witness()


def _welford_base(env, cfg):
    t = WelfordTracker()
    env.claim('fresh_state', And(eq(t.N, 0), eq(t.tracked_value, 0), eq(t.sum_squares, 0)))
    env.claim('fresh_var_zero', eq(t.var, 0))
    env.claim('fresh_std_zero', eq(t.std, 0))
    env.claim('fresh_get', eq(t.get(), 0))
    env.canary('fresh_not_one', eq(t.N, 1))


def _welford_linear(env, cfg):
    """mean is linear: state3 = a*state1 + b*state2, v3 = a*v1 + b*v2  =>  mean3' = a*mean1' + b*mean2'"""
    a, b = env.real('a'), env.real('b')
    N = env.int('N')
    env.assume(N >= 0)
    m1, m2, v1, v2 = env.real('m1'), env.real('m2'), env.real('v1'), env.real('v2')
    ts = []
    for m, v in ((m1, v1), (m2, v2), (a * m1 + b * m2, a * v1 + b * v2)):
        t = WelfordTracker()
        t.N, t.tracked_value, t.sum_squares = N, m, env.real('q')
        guarded(env, 'update', t.update, v)
        ts.append(t)
    env.claim('linear', eq(ts[2].mean, a * ts[0].mean + b * ts[1].mean))
    env.canary('not_affine_shift', eq(ts[2].mean, a * ts[0].mean + b * ts[1].mean + 1))


def _welford_explicit(env, cfg):
    n = cfg['n']
    t = WelfordTracker()
    vs = [env.real(f"v{i}") for i in range(n)]
    for i, v in enumerate(vs):
        guarded(env, 'update', t.update, v)
        k = i + 1
        mean = total(vs[:k]) / k
        var = total([(x - mean) * (x - mean) for x in vs[:k]]) / k
        env.claim(f"mean_n{k}", eq(t.mean, mean))
        env.claim(f"var_n{k}", eq(t.var, var))
        env.claim(f"N_n{k}", eq(t.N, k))
        if k == n and n <= 4:
            s = guarded(env, 'std', lambda: t.std)
            env.claim(f"std_n{k}", And(s >= 0, eq(s * s, var)))
    env.canary('mean_shifted', eq(t.mean, total(vs) / n + 1))


# ---- exponential smoothing --------------------------------------------------------------------

def _mk_smooth(env, alpha):
    return guarded(env, 'ctor', ExponentialSmoothingTracker, alpha)


def _smooth_step(env, cfg):
    alpha = env.real('alpha')
    env.assume(And(alpha >= 0, alpha <= 1))
    t = _mk_smooth(env, alpha)
    check_state_coverage(t)
    N = env.int('N')
    env.assume(N >= 0)
    val, lo, hi = env.real('val'), env.real('lo'), env.real('hi')
    # invariant: value in the convex hull of 0 and the inputs so far (lo <= 0 <= hi are the hull ends)
    env.assume(And(lo <= 0, hi >= 0, lo <= val, val <= hi))
    env.assume(Implies(N == 0, val == 0))
    t.N, t.tracked_value = N, val
    v = env.real('v')
    ret = guarded(env, 'update', t.update, v)
    env.claim('update_returns_self', ret is t)
    env.claim('count', eq(t.N, N + 1))
    env.claim('recurrence', eq(t.get(), (1 - alpha) * val + alpha * v))
    lon, hin = ite(v < lo, v, lo), ite(v > hi, v, hi)
    env.claim('convex_hull', And(lon <= t.get(), t.get() <= hin))
    env.claim('call_is_get', eq(t(), t.get()))
    env.canary('swapped_weights', eq(t.get(), alpha * val + (1 - alpha) * v))
    env.witness()


def _smooth_base(env, cfg):
    alpha = env.real('alpha')
    env.assume(And(alpha >= 0, alpha <= 1))
    t = _mk_smooth(env, alpha)
    env.claim('fresh_state', And(eq(t.N, 0), eq(t.get(), 0)))
    env.claim('alpha_kept', eq(t.alpha, alpha))
    env.canary('fresh_not_one', eq(t.get(), 1))


def _smooth_ctor(env, cfg):
    """alpha outside [0,1] is rejected, inside accepted"""
    alpha = env.real('alpha')
    try:
        ExponentialSmoothingTracker(alpha)
        ok = True
    except AssertionError:
        ok = False
    inside = And(alpha >= 0, alpha <= 1)
    env.claim('ctor_accepts_iff_in_unit_interval', inside if ok else Not(inside))
    env.canary('ctor_open_interval', And(alpha > 0, alpha < 1) if ok else Not(And(alpha > 0, alpha < 1)))


def _smooth_linear(env, cfg):
    a, b, alpha = env.real('a'), env.real('b'), env.real('alpha')
    env.assume(And(alpha >= 0, alpha <= 1))
    s1, s2, v1, v2 = env.real('s1'), env.real('s2'), env.real('v1'), env.real('v2')
    ts = []
    for s, v in ((s1, v1), (s2, v2), (a * s1 + b * s2, a * v1 + b * v2)):
        t = _mk_smooth(env, alpha)
        t.tracked_value = s
        guarded(env, 'update', t.update, v)
        ts.append(t)
    env.claim('linear', eq(ts[2].get(), a * ts[0].get() + b * ts[1].get()))
    env.canary('not_affine_shift', eq(ts[2].get(), a * ts[0].get() + b * ts[1].get() + 1))


def _smooth_explicit(env, cfg):
    n = cfg['n']
    alpha = env.real('alpha')
    env.assume(And(alpha >= 0, alpha <= 1))
    t = _mk_smooth(env, alpha)
    vs = [env.real(f"v{i}") for i in range(n)]
    for v in vs:
        guarded(env, 'update', t.update, v)
    closed = total([alpha * (1 - alpha) ** (n - 1 - i) * vs[i] for i in range(n)])
    env.claim(f"closed_form_n{n}", eq(t.get(), closed))
    env.claim(f"N_n{n}", eq(t.N, n))
    if n <= 3:
        # any interval containing 0 and all inputs contains the value (explicit form of the inductive hull claim)
        lo, hi = env.real('lo'), env.real('hi')
        env.assume(And(lo <= 0, hi >= 0, *[lo <= v for v in vs], *[v <= hi for v in vs]))
        env.claim(f"hull_n{n}", And(lo <= t.get(), t.get() <= hi))
    env.canary('closed_form_shifted', eq(t.get(), closed + 1))


# ---- the reported statistics do not depend on which of them was read before, or in which order -------------------------

READS = ['mean', 'var', 'std', 'get']


def _read(env, t, what):
    return guarded(env, what, (lambda: t.get()) if what == 'get' else (lambda: getattr(t, what)))


def _welford_reads(env, cfg):
    """an update followed by reads in an arbitrary order, after an arbitrary pattern of earlier reads: every read reports the
    statistic of the CURRENT state (what welford_step proves about the state is not repeated here)"""
    t = WelfordTracker()
    N = env.int('N')
    mean, ssq = env.real('mean'), env.real('ssq')
    env.assume(And(N >= 1, ssq >= 0))
    t.N, t.tracked_value, t.sum_squares = N, mean, ssq
    orders = [(), ('var',), ('std',), ('var', 'std'), ('std', 'var'), ('mean', 'std', 'var', 'std')]

    def check(tag):
        order = orders[env.choose(len(orders), label=('reads', tag))]
        for what in order:
            got = _read(env, t, what)
            if what in ('mean', 'get'):
                env.claim(f"read_{what}_{tag}", eq(got, t.tracked_value), detail=f"read order {order}")
            elif what == 'var':
                env.claim(f"read_var_{tag}", eq(got * t.N, t.sum_squares), detail=f"read order {order}")
            else:
                env.claim(f"read_std_{tag}", And(got >= 0, eq(got * got, t.sum_squares / t.N)), detail=f"read order {order}")
    check('before')
    guarded(env, 'update', t.update, env.real('v0'))
    check('after')


def _smooth_reads(env, cfg):
    alpha = env.real('alpha')
    env.assume(And(alpha >= 0, alpha <= 1))
    t = _mk_smooth(env, alpha)
    val = env.real('val')
    t.tracked_value = val
    exp = val
    for i in range(3):
        if env.choose(2, label=('read', i)):
            env.claim('read_between_updates', And(eq(t.get(), exp), eq(t(), exp)))
        v = env.real(f"v{i}")
        guarded(env, 'update', t.update, v)
        exp = (1 - alpha) * exp + alpha * v
    env.claim('read_after_updates', And(eq(t.get(), exp), eq(t(), exp)))


class Poison:
    """a value whose k-th arithmetic use raises (an unsupported operand, an int too large for a float, ...);
    before that it behaves like the number it wraps"""

    def __init__(self, value, fail_at):
        self.value, self.fail_at, self.uses = value, fail_at, 0

    def _use(self):
        self.uses += 1
        if self.uses > self.fail_at:
            raise TypeError("unsupported operand")
        return self.value

    def __add__(self, o): return self._use() + o
    def __radd__(self, o): return o + self._use()
    def __sub__(self, o): return self._use() - o
    def __rsub__(self, o): return o - self._use()
    def __mul__(self, o): return self._use() * o
    def __rmul__(self, o): return o * self._use()
    def __truediv__(self, o): return self._use() / o
    def __rtruediv__(self, o): return o / self._use()


def _rejected_update(env, cfg):
    """both trackers count their updates and report the closed form of the values they ACCEPTED: an update that raises
    (at whichever arithmetic step) leaves count and statistics exactly as they were"""
    which = env.choose(2, label='tracker')
    k = env.choose(3, label='fails_at_use')
    v = env.real('v')
    if which == 0:
        t = WelfordTracker()
        N = env.int('N')
        env.assume(N >= 0)
        mean, ssq = env.real('mean'), env.real('ssq')
        t.N, t.tracked_value, t.sum_squares = N, mean, ssq
        before = (N, mean, ssq)
        now = lambda: (t.N, t.tracked_value, t.sum_squares)     # noqa: E731
    else:
        alpha = env.real('alpha')
        env.assume(And(alpha >= 0, alpha <= 1))
        t = _mk_smooth(env, alpha)
        N = env.int('N')
        val = env.real('val')
        t.N, t.tracked_value = N, val
        before = (N, val)
        now = lambda: (t.N, t.tracked_value)                    # noqa: E731
    try:
        t.update(Poison(v, k))
        raised = False
    except TypeError:
        raised = True
    if not raised:
        return      # the value was used fewer than k+1 times: the update went through
    after = now()
    env.claim('rejected_update_leaves_count_and_statistics_untouched',
              And(*[eq(a, b) for a, b in zip(after, before)]),
              detail=f"{type(t).__name__}: the update raised at use #{k + 1} of the value")


META['explanation'] += ' Further groups: arbitrary read orders of mean / var / std around updates; an update whose value cannot be processed (raises at its k-th arithmetic use) leaves count and statistics untouched.'


def _independent_copies(env, cfg):
    """a deep copy of a tracker (the library copies its base tracker for every loss / feature it tracks) is an independent
    tracker: updating the copy leaves the original's statistics where they were, and vice versa"""
    import copy
    from fractions import Fraction
    if cfg['cls'] == 'welford':
        t = WelfordTracker()
    else:
        t = guarded(env, 'ctor', ExponentialSmoothingTracker, Fraction(1, 4))
    v0, v1, v2 = env.real('v0'), env.real('v1'), env.real('v2')
    guarded(env, 'update', t.update, v0)
    c = guarded(env, 'deepcopy', copy.deepcopy, t)
    before = (t.get(), t.N, getattr(t, 'var', 0))
    guarded(env, 'update_copy', c.update, v1)
    env.claim('original_untouched_by_an_update_of_its_copy',
              And(eq(t.get(), before[0]), eq(t.N, before[1]), eq(getattr(t, 'var', 0), before[2])))
    cb = (c.get(), c.N, getattr(c, 'var', 0))
    guarded(env, 'update', t.update, v2)
    env.claim('copy_untouched_by_an_update_of_the_original', And(eq(c.get(), cb[0]), eq(c.N, cb[1]), eq(getattr(c, 'var', 0), cb[2])))
    fresh = WelfordTracker() if cfg['cls'] == 'welford' else ExponentialSmoothingTracker(Fraction(1, 4))
    fresh.update(v0)
    fresh.update(v1)
    env.claim('copy_continues_like_a_tracker_of_its_own', And(eq(c.get(), fresh.get()), eq(c.N, fresh.N)))
    env.canary('copy_is_not_frozen', eq(c.get(), before[0]))


def _typed_values(env, cfg):
    """the numbers of a stream come in every numeric type Python and NumPy offer: ints, bools, floats, NumPy signed and
    UNSIGNED integers of every width - the statistics are those of their values"""
    import numpy as np
    from fractions import Fraction
    streams = [
        [np.uint8(5), np.uint8(3), np.uint8(250), np.uint8(0)],
        [np.uint16(7), 2, np.uint8(9), 1.5],
        [np.int8(-4), np.int8(100), np.int8(-100)],
        [True, False, 3, np.uint32(4)],
        [np.uint64(6), np.uint64(2)],
        [0, np.uint8(1), np.uint8(2)],
    ]
    alpha = Fraction(1, 4)
    for s_i, stream in enumerate(streams):
        t = WelfordTracker() if cfg['cls'] == 'welford' else ExponentialSmoothingTracker(0.25)
        exact = [Fraction(int(v)) if not isinstance(v, float) else Fraction(v) for v in stream]
        for n, v in enumerate(stream, start=1):
            guarded(env, 'update', t.update, v)
            seen = exact[:n]
            if cfg['cls'] == 'welford':
                mean = sum(seen) / n
                var = sum((a - mean) ** 2 for a in seen) / n
                ok = abs(Fraction(float(t.mean)) - mean) <= Fraction(1, 10 ** 9) and abs(Fraction(float(t.var)) - var) <= Fraction(1, 10 ** 6)
                env.claim('welford_statistics_of_typed_values', ok and t.N == n,
                          detail=f"stream {[repr(x) for x in stream[:n]]}: mean {t.mean} (exact {float(mean)}), var {t.var} (exact {float(var)})")
            else:
                sm = sum(alpha * (1 - alpha) ** (n - 1 - i) * a for i, a in enumerate(seen))
                env.claim('smoothed_value_of_typed_values', abs(Fraction(float(t.get())) - sm) <= Fraction(1, 10 ** 9) and t.N == n,
                          detail=f"stream {[repr(x) for x in stream[:n]]}: {t.get()} (exact {float(sm)})")


META['explanation'] += ' independent_copies: deep copies of a tracker do not share state. typed_values: concrete streams of Python / NumPy numbers of every integer width and signedness.'
