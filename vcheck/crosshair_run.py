"""Runs the CrossHair conditions of /verif/crosshair in parallel (one process per condition, fixed per-condition timeout)
and classifies the output: confirmed / counterexample / inconclusive."""
import os
import re
import subprocess
import sys
import time

VERIF = os.path.dirname(os.path.dirname(os.path.abspath(__file__)))


def conditions(path):
    src = open(path).read()
    out = []
    for m in re.finditer(r"^def (\w+)\(.*?\).*?:\n    \"\"\"\n((?:    .*\n)*?)    \"\"\"", src, re.M):
        if 'post:' in m.group(2):
            out.append((m.group(1), src[:m.start()].count('\n') + 2))
    return out


def run(file_name, per_condition_timeout=40):
    path = os.path.join(VERIF, 'crosshair', file_name)
    exe = os.path.join(VERIF, '.venv', 'bin', 'crosshair')
    procs = []
    for name, line in conditions(path):
        cmd = [exe, 'check', '--report_all', '--per_condition_timeout', str(per_condition_timeout), f"{path}:{line}"]
        env = dict(os.environ, PYTHONPATH=VERIF)
        procs.append((name, time.time(), subprocess.Popen(cmd, stdout=subprocess.PIPE, stderr=subprocess.STDOUT, text=True, env=env)))
    results = []
    for name, t0, p in procs:
        try:
            out, _ = p.communicate(timeout=per_condition_timeout * 3 + 60)
        except subprocess.TimeoutExpired:
            p.kill()
            out = 'timeout'
        if 'Confirmed over all paths' in out:
            verdict = 'confirmed'
        elif 'error:' in out and ('false when calling' in out or 'Exception' in out or 'raises' in out):
            verdict = 'counterexample'
        else:
            verdict = 'inconclusive'
        results.append({'condition': name, 'verdict': verdict, 'seconds': round(time.time() - t0, 1),
                        'output': ' '.join(out.split())[-300:]})
    return results


if __name__ == '__main__':
    for r in run(sys.argv[1] if len(sys.argv) > 1 else 'ch_storages.py'):
        print(r)
