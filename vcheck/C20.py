"""C20 - float results stay close to exact arithmetic (reduced scope, stated): standard model of IEEE-754 rounding."""
from fractions import Fraction

import z3

from symx import And, Or, Not, Implies, eq, Sym
from symx.fp import FPSym, U
from symx.stubs import patched
from .common import guarded, total, check_state_coverage

from ixai.utils.tracker import WelfordTracker, ExponentialSmoothingTracker

ID = 'C20'
C_MEAN = 4        # |mean_hat - mean| <= C_MEAN * n * u * max|v|
C_SMOOTH = 4      # |smooth_hat - smooth| <= C_SMOOTH * u * max|v| / alpha

META = {
    'level': 'other',
    'explanation': 'The shipped update methods are executed on FPSym values: every floating-point operation returns exact*(1+delta) '
                   'with a fresh |delta| <= u = 2^-53 (standard model of binary64, IEEE exactness rules for x-0, 0+x, x*1, x/1, x-x, '
                   '0*x), and z3 proves over the reals - i.e. for ALL rounding outcomes, all values and all stream positions - the '
                   'inductive error invariants |mean_hat - mean| <= 4 n u max|v| (n <= 10^6) and |s_hat - s| <= 4 u max|v| / alpha '
                   '(alpha in [1e-6, 1]), the boundedness they imply, and exact zero variance on constant streams.',
    'bounds': {'quick': {'welford n': '1..10^6 (symbolic)', 'alpha': '[1e-6, 1]', 'constant stream n': '<= 6'},
               'thorough': {'welford n': '1..10^6 (symbolic)', 'alpha': '[1e-6, 1]', 'constant stream n': '<= 16'}},
    'outside': ['the relative variance bound n*eps*kappa (nonlinear query unknown after 600 s already for n = 2)',
                'error propagation through the explainers', 'overflow, underflow and denormals (standard model)',
                'alpha below 1e-6 (the stated bound exceeds max|v| there and is not inductive)',
                'magnitudes are normalised to max|v| = 1 (the standard model is scale invariant)'],
    'assumptions': ['standard model fl(a op b) = (a op b)(1 + delta), |delta| <= 2^-53, no overflow / underflow',
                    'the update count is relaxed from an integer to a real in [1, 10^6] (sound over-approximation; int -> float '
                    'conversion of counts <= 2^53 is exact)', 'inputs are exactly representable floats'],
}

QUERY_TIMEOUT_MS = {'quick': 180000, 'thorough': 600000}


def configs(tier):
    cfgs = [dict(group='welford_mean_step'), dict(group='welford_mean_first'), dict(group='smooth_step', _cost=50),
            dict(group='smooth_first')]
    nmax = 6 if tier == 'quick' else 16
    for n in range(1, nmax + 1):
        cfgs.append(dict(group='constant_stream_variance', n=n))
    cfgs.append(dict(group='textbook_variance_is_refuted'))
    for cls in ('IncrementalPFI', 'IncrementalSage'):
        cfgs.append(dict(group='explainer_offset', cls=cls, _cost=100))
        cfgs.append(dict(group='explainer_offset', cls=cls, override=True, _cost=100))     # n_inner_samples=2 for the call only
    cfgs.append(dict(group='explainer_offset', cls='IncrementalSage', bigger=True, _cost=100))
    return cfgs


def scenario(env, cfg):
    with patched(env):
        if env.mode != 'sym' and cfg['group'] != 'explainer_offset':
            # a refuted rounding-model obligation is confirmed (or not) by a real binary64 experiment on the real class
            return _tracker_replay(env, cfg)
        return globals()['_' + cfg['group']](env, cfg)


def _tracker_replay(env, cfg):
    """real binary64 runs of the shipped trackers against exact rational arithmetic: streams with a large common offset
    (up to 1e8) and unit spread, constant streams, alternating signs.  Bounds: the proved mean / smoothing invariants and,
    for the variance, the classical Welford bound  |var_hat - var| <= 8 n u kappa var  with kappa = sqrt(1 + mean^2/var)."""
    import random as _r
    import math as _m
    import sys
    rng = _r.Random(5)
    u = Fraction(1, 2 ** 53)
    mods = [sys.modules[WelfordTracker.__module__], sys.modules[ExponentialSmoothingTracker.__module__]]
    saved = [(m, m.__dict__.pop('float', None), m.__dict__.pop('int', None)) for m in mods]
    try:
        if cfg['group'].startswith('smooth'):
            worst = Fraction(0)
            for alpha in (1e-3, 0.1, 0.5, 1.0):
                for B in (0.0, 1e8):
                    t = ExponentialSmoothingTracker(alpha)
                    s, mx = Fraction(0), Fraction(1)
                    for i in range(300):
                        v = B + rng.random()
                        t.update(v)
                        s = (1 - Fraction(alpha)) * s + Fraction(alpha) * Fraction(v)
                        mx = max(mx, abs(Fraction(v)))
                    err = abs(Fraction(float(t.get())) - s)
                    worst = max(worst, err * Fraction(alpha) / (C_SMOOTH * u * mx))
            env.claim('smoothing_error_invariant_4_u_over_alpha', worst <= 1,
                      detail=f"binary64 run: error / (4 u max|v| / alpha) = {float(worst):.3g}")
            return
        worst_mean, worst_var, const_bad = Fraction(0), 0.0, None
        def streams():
            for B in (0.0, 1e4, 2.0 ** 20, 1e8):
                for n in (3, 50, 400):
                    base = [B + rng.random() for _ in range(n)]
                    yield base                                              # random order
                    yield sorted(base)                                      # sorted
                    yield [v if i % 2 else 2 * B + 1 - v for i, v in enumerate(base)]       # alternating around the centre
                    yield [B + 0.5] * (n // 2) + [B + 0.5 + rng.random() for _ in range(n - n // 2)]   # constant, then jump / noise
                    yield [0.0] * (n // 2) + base[n // 2:]                  # leading zeros (value equal to a fresh tracker's mean)
        for vals in streams():
            for _once in (0,):
                n = len(vals)
                t = WelfordTracker()
                for v in vals:
                    t.update(v)
                fr = [Fraction(v) for v in vals]
                mean = sum(fr) / n
                var = sum((a - mean) ** 2 for a in fr) / n
                mx = max(abs(a) for a in fr)
                worst_mean = max(worst_mean, abs(Fraction(float(t.mean)) - mean) / (C_MEAN * n * u * mx))
                kappa = _m.sqrt(1 + float(mean * mean / var))
                got = float(t.var)
                rel = abs(Fraction(got) - var) / var if got == got else Fraction(10 ** 9)
                worst_var = max(worst_var, float(rel) / (8 * n * float(u) * kappa))
        for c in (0.1, 1e8 + 0.3, -3.7e11, 1 / 3):
            t = WelfordTracker()
            for _ in range(7):
                t.update(c)
            if float(t.var) != 0.0 or float(t.mean) != c:
                const_bad = (c, float(t.mean), float(t.var))
        env.claim('mean_error_invariant_4_n_u', worst_mean <= 1, detail=f"binary64 run: error / (4 n u max|v|) = {float(worst_mean):.3g}")
        env.claim('variance_error_within_the_welford_bound', worst_var <= 1,
                  detail=f"binary64 run, offsets up to 1e8, unit spread: relative variance error / (8 n u kappa) = {worst_var:.3g}")
        env.claim('variance_exactly_zero', const_bad is None, detail=f"constant stream {const_bad}")
    finally:
        for m, fl, it in saved:
            if fl is not None:
                m.__dict__['float'] = fl
            if it is not None:
                m.__dict__['int'] = it


def within(x, b):
    return And(x <= b, x >= -b)


def _val(x):
    return Sym(x.t) if isinstance(x, Sym) else x


def _welford_mean_step(env, cfg):
    t = WelfordTracker()
    check_state_coverage(t)
    N = env.real('N')
    env.assume(And(N >= 1, N <= 10 ** 6))
    m, e = env.real('m'), env.real('e')
    v = FPSym(z3.Real('v'))
    env.assume(And(within(_val(v), 1), within(m, 1), within(e, C_MEAN * N * U)))
    t.N, t.tracked_value, t.sum_squares = N, FPSym((m + e).t), FPSym(z3.RealVal(0))
    guarded(env, 'update', t.update, v)
    exact = m + (_val(v) - m) / (N + 1)
    got = _val(t.tracked_value)
    env.claim('mean_error_invariant_4_n_u', within(got - exact, C_MEAN * (N + 1) * U))
    env.claim('mean_stays_bounded_hence_finite', within(got, 1 + C_MEAN * (N + 1) * U))
    env.claim('exact_mean_stays_in_range', within(exact, 1))
    env.claim('count_exact', eq(t.N, N + 1))
    env.canary('not_exact', eq(got, exact))
    env.canary('bound_is_not_u_over_4', within(got - exact, U / 4))
    env.notes['roundings_per_update'] = env.notes.get('roundings', 0)


def _welford_mean_first(env, cfg):
    t = WelfordTracker()
    v = FPSym(z3.Real('v'))
    guarded(env, 'update', t.update, v)
    env.claim('first_mean_is_exact', eq(_val(t.tracked_value), _val(v)))
    env.claim('first_variance_is_exact_zero', eq(_val(t.var), 0))


def _smooth_step(env, cfg):
    a = env.real('alpha')
    env.assume(And(a >= Fraction(1, 10 ** 6), a <= 1))
    t = guarded(env, 'ctor', ExponentialSmoothingTracker, FPSym(a.t))
    check_state_coverage(t)
    s, e = env.real('s'), env.real('e')
    v = FPSym(z3.Real('v'))
    env.assume(And(within(_val(v), 1), within(s, 1), within(e * a, C_SMOOTH * U)))
    t.tracked_value = FPSym((s + e).t)
    guarded(env, 'update', t.update, v)
    exact = (1 - a) * s + a * _val(v)
    got = _val(t.tracked_value)
    env.claim('smoothing_error_invariant_4_u_over_alpha', within((got - exact) * a, C_SMOOTH * U))
    env.claim('exact_value_stays_in_range', within(exact, 1))
    env.claim('smoothed_value_stays_bounded_hence_finite', within(got * a, a + C_SMOOTH * U))
    env.canary('not_exact', eq(got, exact))


def _smooth_first(env, cfg):
    a = env.real('alpha')
    env.assume(And(a >= Fraction(1, 10 ** 6), a <= 1))
    t = guarded(env, 'ctor', ExponentialSmoothingTracker, FPSym(a.t))
    env.claim('starts_at_exact_zero', eq(t.tracked_value, 0))
    v = FPSym(z3.Real('v'))
    env.assume(within(_val(v), 1))
    guarded(env, 'update', t.update, v)
    env.claim('first_step_within_invariant', within((_val(t.tracked_value) - a * _val(v)) * a, C_SMOOTH * U))


def _constant_stream_variance(env, cfg):
    """a constant stream of any offset has variance exactly 0 in floating point: no catastrophic cancellation"""
    t = WelfordTracker()
    c = FPSym(z3.Real('c'))
    for _ in range(cfg['n']):
        guarded(env, 'update', t.update, c)
    env.claim('variance_exactly_zero', eq(_val(t.var), 0))
    env.claim('sum_squares_exactly_zero', eq(_val(t.sum_squares), 0))
    env.claim('mean_exactly_the_constant', eq(_val(t.tracked_value), _val(c)))


def _textbook_variance_is_refuted(env, cfg):
    """oracle sharpness: the E[x^2] - E[x]^2 formula evaluated in the same rounding model is NOT exactly zero"""
    c = FPSym(z3.Real('c'))
    env.assume(And(_val(c) >= 1, _val(c) <= 10 ** 9))
    s1, s2 = FPSym(z3.RealVal(0)), FPSym(z3.RealVal(0))
    for _ in range(3):
        s1 = s1 + c
        s2 = s2 + c * c
    mean = s1 / 3
    var = s2 / 3 - mean * mean
    env.canary('textbook_formula_not_exactly_zero', eq(_val(var), 0))
    env.claim('canary_executed', True)


# ---- explainer level: the error of the importance does not grow with a common offset of the loss values ----------------

K_EXPLAINER = 16      # |importance_hat - importance| <= K * u * max|contribution| after two explained observations


def _mk_explainer(cls_name, losses, dynamic=False, alpha=None, keep_variance=False, bigger=False):
    from ixai.explainer import IncrementalPFI, IncrementalSage
    from ixai.imputer import DefaultImputer
    from ixai.storage import BatchStorage
    it = iter(losses)

    def model(x):
        return {'output': 0.0}

    def loss(y_true, y_pred):
        return next(it)
    cls = IncrementalPFI if cls_name == 'IncrementalPFI' else IncrementalSage
    kw = {} if alpha is None else {'smoothing_alpha': alpha}
    if bigger:
        kw['loss_bigger_is_better'] = True
    ex = cls(model, loss, ['f'], storage=BatchStorage(), imputer=DefaultImputer(model, {'f': 0.0}), n_inner_samples=1,
             dynamic_setting=dynamic, **kw)
    if not keep_variance:
        ex._variance_trackers.update = lambda values: None     # not part of this obligation (keeps the rounding terms few)
    return ex


def _loss_order(cls_name):
    """which loss invocations of one explained observation form the feature's contribution (first - second)"""
    # PFI: original loss, imputed loss  -> contribution = imputed - original
    # SAGE (d = 1): model loss, marginal-prediction loss, coalition loss (empty complement = model prediction)
    return ('imputed_minus_original' if cls_name == 'IncrementalPFI' else 'marginal_minus_coalition')


def _explainer_offset(env, cfg):
    if env.mode != 'sym':
        return _explainer_offset_replay(env, cfg)
    name = cfg['cls']
    B = env.real('B')
    env.assume(B >= 1)
    over, bigger = cfg.get('override', False), cfg.get('bigger', False)
    call_kw = {'n_inner_samples': 2} if over else {}
    # loss invocations per explained observation - PFI: original, one per inner sample; SAGE: model, marginal, coalition
    n_loss = (3 if over else 2) if name == 'IncrementalPFI' else 3
    losses, smalls = [], []
    normalised = over and name == 'IncrementalPFI'
    if normalised:
        B = 0       # two inner samples: the error is relative to the loss values; magnitudes normalised to max|loss| = 1
    for t in range(2):
        for j in range(n_loss):
            s = env.real(f"s{t}_{j}")
            env.assume(within(s, 1))
            smalls.append(s)
            losses.append(FPSym((B + s).t))
    ex = guarded(env, 'ctor', _mk_explainer, name, losses, False, None, False, bigger)
    guarded(env, 'explain_one', ex.explain_one, {'f': 1.0}, 0.0)         # seeds the storage only
    contribs = []
    for t in range(2):
        guarded(env, 'explain_one', ex.explain_one, {'f': 1.0}, 0.0, **call_kw)
        s = smalls[t * n_loss:(t + 1) * n_loss]
        if name == 'IncrementalPFI':
            contribs.append(((s[1] + s[2]) / 2 if over else s[1]) - s[0])
        else:
            contribs.append(s[1] - s[2])
    exact = (contribs[0] + contribs[1]) / 2
    got = _val(ex.importance_values['f'])
    if over and name == 'IncrementalPFI':
        # averaging two inner losses of magnitude B rounds relative to B: the bound is relative to the loss values here
        env.claim('importance_error_relative_to_the_loss_values', within(got - exact, K_EXPLAINER * U),
                  detail='|importance_hat - importance| <= 16 u max|loss| with two inner samples (loss values normalised to [-1, 1])')
    else:
        env.claim('importance_error_independent_of_the_loss_offset', within(got - exact, K_EXPLAINER * U * 2),
                  detail='|importance_hat - importance| <= 16 u max|contribution| for every common offset B of the loss values')
    env.canary('not_exact', eq(got, exact))
    if name == 'IncrementalSage':
        # the reported losses themselves have the magnitude of the loss values: error bounded relative to B + 2
        dirn = 1 if bigger else 0
        for label, j in (('model_loss', 0), ('marginal_loss', 1)):
            ex_l = B + (smalls[j] + smalls[n_loss + j]) / 2 + dirn
            env.claim(f"{label}_close_to_exact", within(_val(getattr(ex, label)) - ex_l, 16 * U * (B + 2)))
        ex_e = (smalls[1] + smalls[n_loss + 1]) / 2 - (smalls[0] + smalls[n_loss]) / 2
        if bigger:        # (a 40 s query: asked once, in the configuration where the reported losses carry an offset)
            env.claim('explained_loss_close_to_exact', within(_val(ex.explained_loss) - ex_e, 32 * U * (B + 2)))


def _explainer_offset_replay(env, cfg):
    """concrete binary64 experiment: the same two explained observations with a large common loss offset"""
    import random as _r
    name = cfg['cls']
    over, bigger = cfg.get('override', False), cfg.get('bigger', False)
    call_kw = {'n_inner_samples': 2} if over else {}
    rng = _r.Random(3)
    worst, worst_loss = 0.0, 0.0
    for B in (2.0 ** 30, 1e8, 2.0 ** 40, 4.0):
        n_loss = (3 if over else 2) if name == 'IncrementalPFI' else 3
        losses = [B + rng.random() for _ in range(2 * n_loss)]
        ex = _mk_explainer(name, list(losses), False, None, False, bigger)
        ex.explain_one({'f': 1.0}, 0.0)
        cs, Ls = [], []
        for t in range(2):
            ex.explain_one({'f': 1.0}, 0.0, **call_kw)
            L = [Fraction(v) for v in losses[t * n_loss:(t + 1) * n_loss]]
            Ls.append(L)
            if name == 'IncrementalPFI':
                cs.append(((L[1] + L[2]) / 2 if over else L[1]) - L[0])
            else:
                cs.append(L[1] - L[2])
        exact = (cs[0] + cs[1]) / 2
        err = abs(Fraction(float(ex.importance_values['f'])) - exact)
        bound = K_EXPLAINER * U * 2 * max(abs(c) for c in cs + [Fraction(1)])
        if over and name == 'IncrementalPFI':
            bound = K_EXPLAINER * U * Fraction(B + 2)
        worst = max(worst, float(err / bound))
        if name == 'IncrementalSage':
            dirn = 1 if bigger else 0
            model = (Ls[0][0] + Ls[1][0]) / 2 + dirn
            marg = (Ls[0][1] + Ls[1][1]) / 2 + dirn
            for got, want, k in ((ex.model_loss, model, 16), (ex.marginal_loss, marg, 16), (ex.explained_loss, marg - model, 32)):
                worst_loss = max(worst_loss, float(abs(Fraction(float(got)) - want) / (k * U * Fraction(B + 2))))
    env.claim('importance_error_independent_of_the_loss_offset', worst <= 1.0,
              detail=f"binary64 run with loss offsets up to 2^40: error / allowed bound = {worst:.3g}")
    env.claim('reported_losses_close_to_exact', worst_loss <= 1.0,
              detail=f"binary64 run: error of model / marginal / explained loss over the allowed bound = {worst_loss:.3g}")


META['explanation'] += ' Explainer level: two explained observations of IncrementalPFI / IncrementalSage with a symbolic common loss offset B: error bound independent of B. Objects with state the step harness does not inject are refused (exit 2).'

META['outside'].append('loss functions returning NumPy integers narrower than 64 bit or NumPy booleans (documented return type: float; the pinned IncrementalSage subtracts such values in their own dtype)')
META['explanation'] += ' A refuted rounding-model obligation is replayed by real binary64 runs of the shipped trackers against exact rational arithmetic (offsets up to 1e8, n up to 400): mean within 4 n u max|v|, variance within 8 n u kappa relative, smoothing within 4 u max|v| / alpha.'
