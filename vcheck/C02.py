"""C02 - incremental PFI equals the running statistic of (mean imputed loss - original loss)."""
from symx import And, Or, Not, Implies, eq, same_term
from symx.stubs import patched
from .common import guarded, total, sym_row
from .expl import build_incremental, ref_stat

from ixai.explainer import IncrementalPFI

ID = 'C02'

META = {
    'level': 'other',
    'explanation': 'Inductive step: real IncrementalPFI.explain_one from an arbitrary symbolic tracker state, compared on every '
                   'path (every background draw) with an independent closed-form reference for importance and variance; base '
                   'case and explicit T-call runs from a fresh explainer against mean(c_1..c_n) resp. sum alpha(1-alpha)^(n-i) c_i; '
                   'ignored-feature clause with an uninterpreted model that does not read the feature.',
    'bounds': {'quick': {'d': '1..3', 'q': '1..3', 'm': '1..3', 'explicit_calls': 4},
               'thorough': {'d': '1..4', 'q': '1..3', 'm': '1..4', 'explicit_calls': 5}},
    'outside': ['floating-point rounding', 'sizes beyond the bounds', 'tree imputer'],
    'assumptions': ['model and loss deterministic (uninterpreted functions)', 'np.mean = sum/len over the reals',
                    'every outcome of randrange explored', 'state invariant: importance/variance trackers share N (alpha)'],
}


def _cost(c):
    d, q, m = c['d'], c.get('q', 1), max(c.get('m', 1), 1)
    if c.get('imputer') == 'default':
        return 1
    return m ** (d * q)


def configs(tier):
    cfgs = []

    def add(**k):
        k.setdefault('group', 'step')
        k.setdefault('_cost', _cost(k))
        if k not in cfgs:
            cfgs.append(k)
    dmax, qmax, mmax, cap = (3, 3, 3, 800) if tier == 'quick' else (4, 3, 4, 20000)
    for mode in ('static', 'dynamic'):
        for imp in ('joint', 'product', 'default'):
            for d in range(1, dmax + 1):
                for q in range(1, qmax + 1):
                    for m in range(1, mmax + 1):
                        if imp == 'default' and m > 1:
                            continue
                        c = dict(d=d, q=q, m=m, mode=mode, imputer=imp, storage='batch')
                        if _cost(c) <= cap:
                            add(**c)
        for st in ('interval', 'uniform', 'geometric', 'sequence'):
            add(d=2, q=1, m=1 if st == 'sequence' else 2, mode=mode, imputer='joint', storage=st)
            for strat in ('joint', 'product'):
                add(d=2, q=1, m=1 if st == 'sequence' else 2, mode=mode, imputer=strat, storage=st, calls=2, _cost=600)
        for nm in ('int', 'float', 'mixed'):
            add(d=3, q=1, m=2, mode=mode, imputer='joint', storage='batch', names=nm)
        add(d=2, q=2, m=2, mode=mode, imputer='joint', storage='batch', labels=2)
        add(d=2, q=1, m=2, mode=mode, imputer='joint', storage='batch', labels=4, _cost=100)
        add(d=2, q=1, m=2, mode=mode, imputer='joint', storage='batch', q_call=2)
        add(d=2, q=2, m=2, mode=mode, imputer='joint', storage='batch', ignored=1)
        for imp in ('joint', 'product'):
            add(d=2, q=1, m=2, mode=mode, imputer=imp, storage='batch', context_key=True)
            add(d=2, q=1, m=2, mode=mode, imputer=imp, storage='batch', row_only_key=True)
            add(d=3, q=1, m=2, mode=mode, imputer=imp, storage='batch', positional=True)
        for metric in ('MAE', 'MSE'):
            add(d=2, q=2, m=2, mode=mode, imputer='joint', storage='batch', loss='river:' + metric)
        for lt in ('int', 'np'):
            add(d=2, q=2, m=2, mode=mode, imputer='joint', storage='batch', loss_type=lt)
            add(d=1, q=3, m=2, mode=mode, imputer='product', storage='batch', loss_type=lt)
        add(d=3, q=1, m=2, mode=mode, imputer='product', storage='batch', ignored=0)
        T = 4 if tier == 'quick' else 5
        add(group='explicit', d=1, q=1, T=T, mode=mode, imputer='joint', storage='batch', _cost=50)
        add(group='explicit', d=2, q=1, T=3, mode=mode, imputer='joint', storage='batch', _cost=50)
        add(group='explicit', d=1, q=2, T=3, mode=mode, imputer='product', storage='geometric', cap=2, _cost=50)
        add(group='explicit', d=2, q=1, T=3, mode=mode, imputer='joint', storage='batch', ignored=1, _cost=50)
        add(group='explicit', d=1, q=1, T=3, mode=mode, imputer='joint', storage='batch', prefill=2, _cost=50)
        add(group='explicit', d=2, q=1, T=3, mode=mode, imputer='product', storage='interval', cap=3, prefill=1, _cost=50)
        add(group='explicit', d=2, q=2, T=6 if tier == 'quick' else 9, mode=mode, imputer='default', storage='interval', cap=2,
            alpha_value='1/4', _cost=50)
    return cfgs


def scenario(env, cfg):
    if 'ignored' in cfg:
        from .common import names_for
        names = names_for(cfg.get('names', 'str'), cfg['d'])
        cfg = dict(cfg, _reads=[f for i, f in enumerate(names) if i != cfg['ignored']])
    with patched(env):
        if cfg['group'] == 'explicit':
            return _explicit(env, cfg)
        return _step(env, cfg)


def _contributions(env, b, x, y, q, calls, minputs, rows_now, tag=''):
    """independent re-computation of the per-observation PFI contributions from what reached model / imputer"""
    names, model, loss = b['names'], b['model'], b['loss']
    env.claim(f"one_imputer_call_per_feature_single_subset{tag}",
              len(calls) == len(names) and all(list(c['subset']) == [f] for c, f in zip(calls, names)))
    if len(calls) != len(names):
        return None
    orig = loss.value(y, model.out(x))
    per = 1 if b['defaults'] is not None else q
    env.claim(f"model_evaluations{tag}", len(minputs) == 1 + len(names) * per)
    contrib = {}
    pos = 1
    ok_in = len(minputs) == 1 + len(names) * per and all(same_term(minputs[0][g], x[g]) for g in x)
    for c, f in zip(calls, names):
        env.claim(f"q_predictions{tag}", len(c['preds']) == q and c['n'] == q)
        losses = [loss.value(y, p) for p in c['preds']]
        contrib[f] = total(losses) / len(losses) - orig
        if ok_in:
            for s_i in range(per):
                z = minputs[pos]
                pos += 1
                if model.positional and s_i < len(c['preds']):
                    # the model reads values by position: the replaced value must sit where the feature sits in x
                    z_exp = {g: (z[g] if g == f else x[g]) for g in x}
                    env.claim(f"imputed_value_replaces_in_place_for_positional_models{tag}",
                              And(*[eq(c['preds'][s_i][lab], model.value(z_exp, lab)) for lab in c['preds'][s_i]]))
                ok_in = ok_in and set(z.keys()) == set(x.keys())
                for g in x:
                    if g != f:
                        ok_in = ok_in and g in z and same_term(z[g], x[g])
                    elif b['defaults'] is not None:
                        ok_in = ok_in and same_term(z[g], b['defaults'][g])
                    else:
                        ok_in = ok_in and any(same_term(z[g], r[g]) for r in rows_now)
    env.claim(f"only_that_feature_replaced_by_background{tag}", ok_in)
    return contrib


def _step(env, cfg):
    b = build_incremental(env, IncrementalPFI, cfg)
    ex, pre, names = b['ex'], b['pre'], b['names']
    q = cfg.get('q_call', b['q'])
    kw = {'n_inner_samples': cfg['q_call']} if 'q_call' in cfg else {}
    rows_now = list(b['rows'])
    ret = guarded(env, 'explain_one', ex.explain_one, b['x'], b['y'], **kw)
    contrib = _contributions(env, b, b['x'], b['y'], q, b['imputer'].calls, b['model'].calls, rows_now)
    if contrib is None:
        return
    N = pre['N']
    got_imp, got_var = ex.importance_values, ex.variances
    env.claim('keys', set(got_imp.keys()) == set(names) and set(got_var.keys()) == set(names))
    for f in names:
        imp_new = ref_stat(b, pre['imp'][f]['val'], N, contrib[f])
        d = contrib[f] - imp_new
        var_new = ref_stat(b, pre['var'][f]['val'], N, d * d)
        env.claim('importance_is_running_stat', eq(got_imp[f], imp_new))
        env.claim('variance_is_running_stat_of_sq_dev_from_updated', eq(got_var[f], var_new))
        env.claim('returned_is_importance', eq(ret[f], got_imp[f]))
    if 'ignored' in cfg:
        f = names[cfg['ignored']]
        env.claim('ignored_feature_contributes_zero', eq(contrib[f], 0))
        env.claim('ignored_feature_importance_decays_only', eq(got_imp[f], ref_stat(b, pre['imp'][f]['val'], N, 0)))
    env.claim('counts', And(eq(ex._importance_trackers.N, N + 1), eq(ex._variance_trackers.N, N + 1),
                            eq(ex.seen_samples, pre['seen'] + 1)))
    f0 = names[0] if cfg.get('ignored') != 0 else names[-1]
    env.canary('sign_flipped', eq(got_imp[f0], ref_stat(b, pre['imp'][f0]['val'], N, -contrib[f0])))
    env.claim('model_outputs_not_modified_by_the_library', b['model'].outputs_intact())
    if env.mode == 'sym' and env.stats.vacuity_witnesses < 2:
        env.witness()
    if cfg.get('calls', 1) >= 2:
        # a second explanation by the same objects: the storage (possibly at capacity) was updated by the first call
        imp1 = {f: got_imp[f] for f in names}
        var1 = {f: got_var[f] for f in names}
        rows2 = list(b['storage'].get_data()[0])
        x2, y2 = sym_row(env, names, 'x2'), env.real('y2')
        n_i, n_m = len(b['imputer'].calls), len(b['model'].calls)
        guarded(env, 'explain_one#2', ex.explain_one, x2, y2, **kw)
        c2 = _contributions(env, b, x2, y2, q, b['imputer'].calls[n_i:], b['model'].calls[n_m:], rows2, tag='_second_call')
        if c2 is None:
            return
        for f in names:
            imp2 = ref_stat(b, imp1[f], N + 1, c2[f])
            d2 = c2[f] - imp2
            env.claim('importance_is_running_stat_second_call', eq(ex.importance_values[f], imp2))
            env.claim('variance_is_running_stat_second_call', eq(ex.variances[f], ref_stat(b, var1[f], N + 1, d2 * d2)))


def _explicit(env, cfg):
    cfg = dict(cfg, state='fresh', m=cfg.get('prefill', 0))     # prefill: the user-supplied storage already holds rows
    b = build_incremental(env, IncrementalPFI, cfg)
    ex, names, q = b['ex'], b['names'], b['q']
    alpha = b['alpha']
    hist = {f: [] for f in names}
    for t in range(cfg['T']):
        x = sym_row(env, names, f"x{t}")
        y = env.real(f"y{t}")
        rows_now = list(ex._storage.get_data()[0])
        n_calls, n_model, n_loss = len(b['imputer'].calls), len(b['model'].calls), len(b['loss'].calls)
        guarded(env, 'explain_one', ex.explain_one, x, y)
        if t == 0:
            env.claim('first_observation_only_seeds',
                      And(len(b['model'].calls) == 0, len(b['loss'].calls) == 0, len(b['imputer'].calls) == 0,
                          len(ex._storage) == 1 + cfg.get('prefill', 0), eq(ex._importance_trackers.N, 0),
                          ex.importance_values == {}))
            continue
        contrib = _contributions(env, b, x, y, q, b['imputer'].calls[n_calls:], b['model'].calls[n_model:], rows_now,
                                 tag=f"_t{t + 1}")
        if contrib is None:
            return
        for f in names:
            hist[f].append(contrib[f])
            n = len(hist[f])
            if b['dynamic']:
                closed = total([alpha * (1 - alpha) ** (n - 1 - i) * c for i, c in enumerate(hist[f])])
            else:
                closed = total(hist[f]) / n
            env.claim(f"importance_closed_form_t{t + 1}", eq(ex.importance_values[f], closed))
            if 'ignored' in cfg and f == names[cfg['ignored']]:
                env.claim(f"ignored_feature_is_zero_t{t + 1}", eq(ex.importance_values[f], 0))
    f0 = names[0]
    env.canary('closed_form_shifted', eq(ex.importance_values[f0], total(hist[f0]) + 1))


META['explanation'] += ' Further groups: second explanation from the state and storage the first one left (stale caches), integer-typed losses with dtype-coercing arrays, real river metrics as loss, prefilled user storages, long histories (6-9 calls).'
