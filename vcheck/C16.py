"""C16 - normalised importances and confidence bounds are well-formed for all values and numeric flavours."""
from symx import And, Or, Not, Implies, eq, ite, is_nonfinite
from symx.stubs import patched, UFModel, UFLoss
from .common import guarded, total, names_for
from .expl import build_incremental

from ixai.explainer import IncrementalPFI, IncrementalSage
from ixai.explainer.base import BaseIncrementalFeatureImportance

ID = 'C16'

META = {
    'level': 'other',
    'explanation': 'Real _normalize_importance_values / get_normalized_importance_values on dictionaries of symbolic values in both '
                   'numeric flavours (python floats raise on /0, NumPy scalars give inf/nan), every ordering for max/min; real '
                   'get_confidence_bound with symbolic alpha, t, variance and delta (sqrt by witness, (1-alpha)^t uninterpreted with '
                   'sign axioms for symbolic t and exact for t <= 6); variance non-negativity as an inductive step through the real '
                   'explainers (the value fed to the variance tracker is recorded and proved >= 0).',
    'bounds': {'quick': {'d': '1..4', 'flavours': 'py,np,mixed', 'modes': 'sum,delta,other', 't_exact': '0..6'},
               'thorough': {'d': '1..6', 'flavours': 'py,np,mixed', 'modes': 'sum,delta,other', 't_exact': '0..16'}},
    'outside': ['floating-point rounding (e.g. a sum that is zero only after rounding)', 'confidence bound before any variance '
                'exists (first call): the formula is undefined there', 'strict positivity at alpha = 1 and variance = 0, where the '
                'stated formula itself evaluates to 0'],
    'assumptions': ['flavour model of division by zero', 'POW(b,t) uninterpreted with: b>=0 => POW>=0, b>0 => POW>0, POW(b,0)=1, '
                    '0<=b<=1 and t>=0 => POW<=1', 'sqrt(x) = the s >= 0 with s*s = x'],
}


def configs(tier):
    cfgs = []
    dmax = 4 if tier == 'quick' else 6
    for d in range(1, dmax + 1):
        for fl in ('py', 'np', 'mixed'):
            for mode in ('sum', 'delta'):
                cfgs.append(dict(group='normalize', d=d, flavor=fl, mode=mode, _cost=(24 if mode == 'delta' else 1) * d))
    cfgs.append(dict(group='normalize', d=2, flavor='py', mode='other'))
    for d, mode in ([(1, 'sum'), (2, 'sum')] if tier == 'quick' else [(1, 'sum'), (2, 'sum'), (2, 'delta'), (3, 'sum')]):
        cfgs.append(dict(group='normalize_binary64', d=d, mode=mode, _cost=200))
    cfgs.append(dict(group='normalize_via_explainer', d=2, flavor='np', mode='sum'))
    cfgs.append(dict(group='normalize_via_explainer', d=3, flavor='py', mode='delta'))
    for cls in ('IncrementalSage', 'IncrementalPFI'):
        for mode in ('static', 'dynamic'):
            cfgs.append(dict(group='variance_step', cls=cls, d=2, q=1, m=1, mode=mode, imputer='joint', storage='batch'))
            cfgs.append(dict(group='variance_step', cls=cls, d=2, q=2, m=2, mode=mode, imputer='joint', storage='batch', _cost=50))
            cfgs.append(dict(group='confidence', cls=cls, d=2, mode=mode, t='sym'))
        tmax = 6 if tier == 'quick' else 16
        for t in range(0, tmax + 1):
            cfgs.append(dict(group='confidence', cls=cls, d=1, mode='dynamic', t=t))
        cfgs.append(dict(group='confidence_delta_domain', cls=cls, d=1, mode='dynamic'))
        for mode in ('static', 'dynamic'):
            cfgs.append(dict(group='after_update', cls=cls, d=1, q=1, m=1, mode=mode, imputer='default', storage='batch', _cost=30))
            cfgs.append(dict(group='variance_sample_sign_fp', cls=cls, mode=mode, _cost=300))
    return cfgs


def finding_key(cfg, name):
    return f"{cfg['group']}/{cfg.get('flavor', 'py')}/{name}"


def numeric(cfg):
    return 'npfloat' if cfg.get('flavor') in ('np', 'mixed') else 'fraction'


def scenario(env, cfg):
    with patched(env):
        return globals()['_' + cfg['group']](env, cfg)


def _values(env, cfg, names):
    fl = cfg['flavor']
    vals = {}
    for i, f in enumerate(names):
        f_fl = fl if fl != 'mixed' else ('np' if i % 2 == 0 else 'py')
        vals[f] = env.real(f"v{i}", f_fl)
    return vals


def _sym_max(vs):
    m = vs[0]
    for v in vs[1:]:
        m = ite(v > m, v, m)
    return m


def _sym_min(vs):
    m = vs[0]
    for v in vs[1:]:
        m = ite(v < m, v, m)
    return m


def _check_normalised(env, vals, out, mode):
    names = list(vals)
    env.claim('keys_kept', set(out.keys()) == set(names) and len(out) == len(names))
    bad = [f for f in out if is_nonfinite(out[f])]
    env.claim('never_nan_or_inf', not bad, detail='normalised importance contains nan/inf')
    if bad or set(out.keys()) != set(names):
        return
    vs = [vals[f] for f in names]
    factor = total(vs) if mode == 'sum' else _sym_max(vs) - _sym_min(vs)
    if bool(eq(factor, 0)):
        env.claim('zero_normaliser_gives_all_zero', And(*[eq(out[f], 0) for f in names]))
    else:
        env.claim('ratios_kept', And(*[eq(out[f] * factor, vals[f]) for f in names]))
        outs = [out[f] for f in names]
        if mode == 'sum':
            env.claim('sum_mode_adds_to_one', eq(total(outs), 1))
        else:
            env.claim('delta_mode_range_is_one', eq(_sym_max(outs) - _sym_min(outs), 1))
    env.canary('not_identity', And(*[eq(out[f], vals[f]) for f in names]))


def _normalize(env, cfg):
    names = names_for('str', cfg['d'])
    vals = _values(env, cfg, names)
    mode = cfg['mode']
    if mode == 'other':
        try:
            BaseIncrementalFeatureImportance._normalize_importance_values(vals, mode='median')
            env.claim('unknown_mode_rejected', False)
        except NotImplementedError:
            env.claim('unknown_mode_rejected', True)
        return
    vals_copy = dict(vals)
    out = guarded(env, 'normalize', BaseIncrementalFeatureImportance._normalize_importance_values, vals, mode=mode)
    env.claim('input_unmodified', all(vals[k] is vals_copy[k] for k in vals_copy) and len(vals) == len(vals_copy))
    _check_normalised(env, vals, out, mode)


def _normalize_via_explainer(env, cfg):
    """the public method: importance values live in the trackers (PFI yields NumPy floats via np.mean)"""
    c = dict(cfg, q=1, m=1, imputer='joint', storage='batch', mode='static')
    c.pop('mode')
    b = build_incremental(env, IncrementalPFI, dict(c, mode='static'))
    ex, names = b['ex'], b['names']
    vals = {}
    for i, f in enumerate(names):
        v = env.real(f"v{i}", cfg['flavor'])
        ex._importance_trackers.tracked_value[f].tracked_value = v
        vals[f] = v
    out = guarded(env, 'get_normalized_importance_values', ex.get_normalized_importance_values, mode=cfg['mode'])
    _check_normalised(env, vals, out, cfg['mode'])
    out_default = guarded(env, 'get_normalized_importance_values', ex.get_normalized_importance_values)
    if cfg['mode'] == 'sum' and not any(is_nonfinite(v) for v in list(out.values()) + list(out_default.values())):
        env.claim('default_mode_is_sum', And(*[eq(out_default[f], out[f]) for f in names]))


def _variance_step(env, cfg):
    cls = IncrementalSage if cfg['cls'] == 'IncrementalSage' else IncrementalPFI
    b = build_incremental(env, cls, cfg)
    ex, names, pre = b['ex'], b['names'], b['pre']
    fed = []
    real_update = ex._variance_trackers.update

    def spy(values):
        fed.append(dict(values))
        return real_update(values)
    ex._variance_trackers.update = spy
    guarded(env, 'explain_one', ex.explain_one, b['x'], b['y'])
    env.claim('variance_tracker_fed_once', len(fed) == 1 and set(fed[0].keys()) == set(names))
    if len(fed) != 1:
        return
    for f in names:
        env.claim('variance_input_is_nonnegative', fed[0][f] >= 0)
        # tracker step with an abstract non-negative input: running statistic of non-negatives stays non-negative
        z = env.real(f"sq_{f}")
        env.assume(z >= 0)
        from .expl import ref_stat
        stepped = ref_stat(b, pre['var'][f]['val'], pre['N'], z)
        env.claim('running_stat_of_nonnegatives_is_nonnegative', stepped >= 0)
        env.claim('reported_variance_is_that_statistic', eq(ex.variances[f], ref_stat(b, pre['var'][f]['val'], pre['N'], fed[0][f])))
    env.canary('variance_input_not_always_positive', fed[0][names[0]] > 0)


def _mk(env, cfg):
    cls = IncrementalSage if cfg['cls'] == 'IncrementalSage' else IncrementalPFI
    b = build_incremental(env, cls, dict(cfg, q=1, m=1, imputer='joint', storage='batch'))
    ex = b['ex']
    if cfg['t'] != 'sym':
        ex.seen_samples = cfg['t']
    if not b['dynamic']:
        # static mode keeps the default smoothing parameter (a float constant); generalise it to any alpha in (0,1]
        a = env.real('alpha')
        env.assume(And(a > 0, a <= 1))
        ex._smoothing_alpha = a
    return b


def _confidence(env, cfg):
    b = _mk(env, cfg)
    ex, names = b['ex'], b['names']
    alpha = ex._smoothing_alpha
    t = ex.seen_samples
    d1, d2 = env.real('delta1'), env.real('delta2')
    env.assume(And(d1 > 0, d1 <= 1, d2 > 0, d2 <= 1, d1 <= d2))
    b1 = guarded(env, 'get_confidence_bound', ex.get_confidence_bound, d1)
    b2 = guarded(env, 'get_confidence_bound', ex.get_confidence_bound, delta=d2)
    env.claim('keys_are_feature_names', list(b1.keys()) == list(names))
    for f in names:
        var = ex.variances[f]
        v1, v2 = b1[f], b2[f]
        env.claim('bound_is_finite', not (is_nonfinite(v1) or is_nonfinite(v2)))
        if is_nonfinite(v1) or is_nonfinite(v2):
            continue
        power = (1 - alpha) ** t
        s1 = v1 - power
        # s1 = sqrt(var * alpha / ((2 - alpha) * delta)) stated without roots
        env.claim('formula', And(s1 >= 0, eq(s1 * s1 * (2 - alpha) * d1, var * alpha)))
        env.claim('nonnegative', v1 >= 0)
        env.claim('positive_below_alpha_one', Implies(alpha < 1, v1 > 0))
        env.claim('non_increasing_in_delta', v1 >= v2)
    f0 = names[0]
    env.canary('not_increasing_in_delta', b1[f0] < b2[f0])
    env.canary('not_constant', eq(b1[f0], 1))


def _confidence_delta_domain(env, cfg):
    b = _mk(env, dict(cfg, t='sym'))
    ex = b['ex']
    delta = env.real('delta')
    try:
        ex.get_confidence_bound(delta)
        ok = True
    except AssertionError:
        ok = False
    inside = And(delta > 0, delta <= 1)
    env.claim('delta_accepted_iff_in_half_open_unit_interval', inside if ok else Not(inside))


def _after_update(env, cfg):
    """read the derived views, explain one more observation, read them again: the second reading is computed from the NEW
    importance values / variances / sample count (a memoised result of the first reading would be stale).  The expected
    bound is built from the same sqrt witnesses as the code (sqrt is a function symbol), so the comparison needs no
    nonlinear reasoning."""
    import sys
    cls = IncrementalSage if cfg['cls'] == 'IncrementalSage' else IncrementalPFI
    b = build_incremental(env, cls, cfg)
    ex, names = b['ex'], b['names']
    if not b['dynamic']:
        a = env.real('alpha')
        env.assume(And(a > 0, a <= 1))
        ex._smoothing_alpha = a
    delta = env.real('delta')
    env.assume(And(delta > 0, delta <= 1))
    msqrt = sys.modules['ixai.explainer.base'].math.sqrt        # the shimmed math.sqrt (witness function)

    def read(tag):
        imp = dict(ex.importance_values)
        out_sum = guarded(env, 'normalize_sum', ex.get_normalized_importance_values, mode='sum')
        out_delta = guarded(env, 'normalize_delta', ex.get_normalized_importance_values, mode='delta')
        _check_normalised(env, imp, out_sum, 'sum')
        _check_normalised(env, imp, out_delta, 'delta')
        # the derived views are reads: importance_values still reports the raw running statistics afterwards
        imp_again = ex.importance_values
        env.claim(f"normalised_views_leave_importance_values_{tag}", set(imp_again.keys()) == set(imp.keys())
                  and And(*[eq(imp_again[f], imp[f]) for f in imp if f in imp_again]))
        cb = guarded(env, 'confidence', ex.get_confidence_bound, delta)
        alpha, t = ex._smoothing_alpha, ex.seen_samples
        for f in names:
            if is_nonfinite(cb[f]):
                env.claim(f"bound_is_finite_{tag}", False)
                continue
            expected = (1 - alpha) ** t + (1 / msqrt(delta)) * msqrt(ex.variances[f]) * msqrt(alpha / (2 - alpha))
            env.claim(f"confidence_bound_follows_current_state_{tag}", eq(cb[f], expected))
    read('before')
    guarded(env, 'explain_one', ex.explain_one, b['x'], b['y'])
    read('after')


def _normalize_binary64(env, cfg):
    """bit-precise binary64 (z3 floating-point theory): whenever the normaliser is non-zero and no raw value is larger in
    magnitude than 2^20 times the normaliser (so the true ratios are far from overflow), the normalised values are finite -
    also for subnormal normalisers; a zero normaliser gives exact zeros."""
    import z3
    from symx.fp64 import F64Sym, F64
    if env.mode != 'sym':
        return _normalize_binary64_replay(env, cfg)
    names = names_for('str', cfg['d'])
    vals = {f: F64Sym.var(f"b64_{i}") for i, f in enumerate(names)}
    for v in vals.values():
        env.assume(v.is_finite())
    out = guarded(env, 'normalize', BaseIncrementalFeatureImportance._normalize_importance_values, vals, mode=cfg['mode'])
    vs = [vals[f] for f in names]
    if cfg['mode'] == 'sum':
        factor = vs[0]
        for v in vs[1:]:
            factor = factor + v
    else:
        hi = lo = vs[0]
        for v in vs[1:]:
            hi = F64Sym(z3.If(z3.fpGT(v.t, hi.t), v.t, hi.t))
            lo = F64Sym(z3.If(z3.fpLT(v.t, lo.t), v.t, lo.t))
        factor = hi - lo
    zero = z3.fpIsZero(factor.t)
    moderate = z3.And(factor.is_finite().t, *[z3.fpLEQ(z3.fpAbs(v.t), z3.fpMul(z3.RNE(), z3.fpAbs(factor.t), z3.FPVal(2.0 ** 20, F64)))
                                               for v in vs])
    for f in names:
        o = out[f]
        if isinstance(o, F64Sym):
            env.claim('finite_for_every_nonzero_normaliser_including_subnormals',
                      z3.Implies(z3.And(z3.Not(zero), moderate), o.is_finite().t))
        else:
            env.claim('exact_zero_for_zero_normaliser', o == 0.0)
    env.canary('not_always_finite_without_the_precondition', out[names[0]].is_finite().t if isinstance(out[names[0]], F64Sym) else False)


def _normalize_binary64_replay(env, cfg):
    """concrete replay with real binary64 numbers: subnormal and tiny normalisers"""
    import numpy as np
    names = names_for('str', cfg['d'])
    tiny = [5e-324, 1e-320, 2.5e-310, 1e-308]
    bad = []
    for t in tiny:
        for typ in (float, np.float64):
            vals = {f: typ(t * (i + 1)) for i, f in enumerate(names)}
            if cfg['mode'] == 'delta' and len(names) == 1:
                continue
            with np.errstate(all='ignore'):
                out = BaseIncrementalFeatureImportance._normalize_importance_values(vals, mode=cfg['mode'])
            if any(is_nonfinite(v) for v in out.values()):
                bad.append((vals, out))
    env.claim('finite_for_every_nonzero_normaliser_including_subnormals', not bad, detail=str(bad[:1]))


META['explanation'] += ' Further groups: bit-precise binary64 (z3 FP theory) normalisation - finite for every non-zero normaliser including subnormals; views re-read after another explanation follow the new state.'


def _variance_sample_sign_fp(env, cfg):
    """'tracked variances are non-negative' in floating point: under the standard rounding model (every operation returns
    exact * (1 + delta), |delta| <= 2^-53, all deltas symbolic) every sample the explainer feeds to its variance trackers is
    >= 0 - for all loss values, all smoothing parameters and all rounding outcomes.  (A square of one rounded difference is;
    a product of two differently rounded differences is not.)"""
    import z3
    from symx import Sym
    from symx.fp import FPSym
    from .C20 import _mk_explainer
    name, dynamic = cfg['cls'], cfg['mode'] == 'dynamic'
    if env.mode != 'sym':
        return _variance_sign_replay(env, name, dynamic)
    n_loss = 2 if name == 'IncrementalPFI' else 3
    losses = []
    for t in range(2):
        for j in range(n_loss):
            v = env.real(f"l{t}_{j}")
            env.assume(And(v >= -1000, v <= 1000))
            losses.append(FPSym(v.t))
    alpha = None
    if dynamic:
        a = env.real('alpha')
        env.assume(And(a > 0, a <= 1))
        alpha = FPSym(a.t)
    ex = guarded(env, 'ctor', _mk_explainer, name, losses, dynamic, alpha, True)
    captured = []
    real_update = ex._variance_trackers.update

    def capture(values):
        captured.append(dict(values))
        return real_update({k: 0.0 for k in values})      # the tracker arithmetic itself is C10 / C20
    ex._variance_trackers.update = capture
    guarded(env, 'explain_one', ex.explain_one, {'f': 1.0}, 0.0)         # seeds the storage only
    for t in range(2):
        guarded(env, 'explain_one', ex.explain_one, {'f': 1.0}, 0.0)
    env.claim('variance_samples_were_observed', len(captured) == 2)
    for t, c in enumerate(captured):
        v = c['f']
        env.claim(f"variance_sample_nonnegative_under_rounding_t{t + 1}", Sym(v.t) >= 0 if isinstance(v, Sym) else v >= 0,
                  detail='a sample fed to the variance tracker can be negative for some rounding outcome')


def _variance_sign_replay(env, name, dynamic):
    """real binary64 experiment: near-constant streams (the regime where differences are a few ulps) over a grid of smoothing
    parameters; the tracked variance must never be negative and the confidence bound must stay computable"""
    import math
    from .C20 import _mk_explainer
    bad = None
    alphas = [round(0.25 + 0.01 * i, 2) for i in range(26)] if dynamic else [None]
    n_loss = 2 if name == 'IncrementalPFI' else 3
    for alpha in alphas:
        for c in (7.4, 3.9, 1.9):
            vals = [c] * 260 + [math.nextafter(c, 10.0), math.nextafter(math.nextafter(math.nextafter(c, 10.0), 10.0), 10.0)] * 3
            losses = []
            for v in vals:
                losses += ([0.0, v] if n_loss == 2 else [0.0, v, 0.0])     # contribution of the observation = v
            ex = _mk_explainer(name, losses, dynamic, alpha, True)
            ex.explain_one({'f': 1.0}, 0.0)
            for i in range(len(vals)):
                ex.explain_one({'f': 1.0}, 0.0)
                var = ex.variances['f']
                if not var >= 0:
                    bad = (alpha, c, i + 1, var)
                    break
                try:
                    b = ex.get_confidence_bound(0.1)['f']
                    if not (b == b and b > 0 and b != float('inf')):
                        bad = (alpha, c, i + 1, f"bound {b}")
                        break
                except (ValueError, ArithmeticError) as exc:
                    bad = (alpha, c, i + 1, f"get_confidence_bound raised {type(exc).__name__}: {exc}")
                    break
            if bad:
                break
        if bad:
            break
    env.claim('variance_sample_nonnegative_under_rounding', bad is None,
              detail=f"binary64 run (alpha, stream value, step, what): {bad}")


META['explanation'] += ' variance_sample_sign_fp: under the standard rounding model every sample fed to the variance trackers is >= 0 (all loss values, alphas and rounding outcomes); replay = binary64 runs on near-constant streams.'
