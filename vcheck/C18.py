"""C18 - results are reproducible from the global random seeds (non-interference by self-composition).

The same configuration is executed twice inside ONE symbolic path.  Draw i of Python's global generator and draw j of
NumPy's are the same symbols in both runs: run B replays run A's draw log and must ask for the same primitive over the
same range (otherwise "the draw sequence diverged" is itself the counterexample).  Every other entropy source (time, os,
uuid, secrets, id(), unseeded private generators) returns DIFFERENT fresh symbols in A and B, and run B is preceded by a
prelude that builds and exercises other iXAI objects.  z3 then proves that storage contents and importance values of A
and B are equal for all values of all those symbols.
"""
import random as _real_random
import sys
import types

import numpy as _real_np
import z3

from symx import And, Or, Not, Implies, eq, same_term, Sym, HarnessError
from symx.stubs import patched, RandomStub, NpRandomStub, UFModel, UFLoss
from .common import guarded, total, sym_row, names_for
from .expl import build_incremental, build_storage

from ixai.explainer import IncrementalPFI, IncrementalSage
from ixai.explainer.sage import BatchSage, IntervalSage
from ixai.imputer import MarginalImputer, DefaultImputer
from ixai.storage import (BatchStorage, IntervalStorage, SequenceStorage, UniformReservoirStorage,
                          GeometricReservoirStorage)
from ixai.utils.tracker import WelfordTracker, MultiValueTracker

ID = 'C18'

META = {
    'level': 'other',
    'explanation': 'Self-composition: two replays of the same explainer x storage x imputer configuration in one symbolic path with '
                   'shared global-generator draws and run-specific entropy symbols; equality of all observable results is a validity '
                   'query. Constructor-level clause decided separately: every private generator an iXAI object creates must be '
                   'seeded from a value that is not entropy (TreeStorage\'s river learners included: their seed attribute is '
                   'inspected, and a refutation is replayed by two real, identically seeded runs).',
    'bounds': {'quick': {'d': 2, 'calls T': 3, 'storages': 'default,batch,interval,uniform,geometric', 'imputers': 'joint,product'},
               'thorough': {'d': '2..3', 'calls T': 4}},
    'outside': ['randomness consumed INSIDE river\'s tree learners (TreeStorage / TreeImputer contents)',
                'hash-seed dependent iteration order of sets of str (part of "the same interpreter configuration")',
                'threads / wall-clock scheduling'],
    'assumptions': ['a global generator seeded identically produces the same draw for the same request sequence',
                    'time / os / uuid / secrets / id() / unseeded private generators return arbitrary, run-specific values',
                    'model / loss deterministic (uninterpreted)'],
}


def configs(tier):
    cfgs = []
    T = 3 if tier == 'quick' else 4
    for cls in ('IncrementalSage', 'IncrementalPFI'):
        for mode in ('static', 'dynamic'):
            for st in ('default', 'batch', 'interval', 'uniform', 'geometric'):
                for imp in ('joint', 'product'):
                    if st == 'default' and imp == 'product':
                        continue
                    cfgs.append(dict(group='selfcomp', cls=cls, mode=mode, storage=st, imputer=imp, d=2, q=1, T=T, cap=2,
                                     _cost=500 if st in ('uniform', 'geometric') else 100))
        cfgs.append(dict(group='selfcomp', cls=cls, mode='static', storage='batch', imputer='product', d=3, q=1, T=3, cap=2, _cost=3000))
        cfgs.append(dict(group='selfcomp', cls=cls, mode='static', storage='batch', imputer='joint', d=3, q=1, T=3, cap=2, _cost=3000))
        for mode in ('static', 'dynamic'):
            # replay B is configured with the very objects replay A was given (a user re-using their list of feature names)
            cfgs.append(dict(group='selfcomp', cls=cls, mode=mode, storage='batch', imputer='joint', d=2, q=1, T=T, cap=2, share=True, _cost=100))
        if tier == 'thorough':
            cfgs.append(dict(group='selfcomp', cls=cls, mode='dynamic', storage='geometric', imputer='joint', d=3, q=1, T=3, cap=2, _cost=5000))
    for cls in ('BatchSage', 'IntervalSage'):
        cfgs.append(dict(group='selfcomp_batch', cls=cls, d=2, n=2, q=1, _cost=300))
    for st in ('uniform', 'geometric'):
        cfgs.append(dict(group='selfcomp_storage', storage=st, cap=2, T=5 if tier == 'quick' else 6, _cost=500))
    cfgs.append(dict(group='private_generators'))
    cfgs.append(dict(group='tree_seed'))
    return cfgs


def finding_key(cfg, name):
    return f"{cfg['group']}/{name}"


# ---- run-specific entropy --------------------------------------------------------------------------

class Entropy:
    """stands in for time / os / uuid / secrets inside ixai modules; every value is a fresh symbol tagged with the run"""

    def __init__(self, env, tag):
        self.env, self.tag, self.n = env, tag, 0
        self.used = []

    def _fresh(self, what):
        self.n += 1
        self.used.append(what)
        return self.env.real(f"entropy_{self.tag}_{what}_{self.n}")

    def module(self, name):
        ent = self

        class _M:
            def __getattr__(self, attr):
                def f(*a, **k):
                    return ent._fresh(f"{name}_{attr}")
                return f
        return _M()


class ReplayRandom:
    """run B: answers from run A's draw log; a different request sequence is a divergence"""

    def __init__(self, env, log, entropy, kind='py'):
        self.env, self.log, self.i, self.entropy, self.kind = env, list(log), 0, entropy, kind
        self.diverged = []
        self.calls = []

    def _next(self, kind, rng):
        if self.i >= len(self.log):
            self.diverged.append(f"extra {kind}{rng} after {self.i} draws")
            raise _Diverged()
        k, r, v = self.log[self.i]
        self.i += 1
        if k != kind or (kind != 'random' and r != rng):
            self.diverged.append(f"draw {self.i}: run A asked {k}{r}, run B asks {kind}{rng}")
            raise _Diverged()
        self.calls.append((k, r, v))
        return v

    def random(self): return self._next('random', None)

    def randrange(self, a, b=None, step=1):
        if b is None:
            a, b = 0, a
        return self._next('randrange', (a, b))

    def randint(self, a, b): return self._next('randint', (a, b))

    def getrandbits(self, k): return self._next('getrandbits', k)

    def choices(self, population, weights=None, *, cum_weights=None, k=1):
        v = self._next('choices', len(list(population)))
        return [list(population)[i] for i in v] if isinstance(v, list) and v and isinstance(v[0], int) else v

    def permutation(self, seq):
        n = seq if isinstance(seq, int) else len(list(seq))
        order = self._next('permutation', n)
        arr = _real_np.arange(seq) if isinstance(seq, int) else _real_np.asarray(list(seq))
        return arr[list(order)]

    def seed(self, *a, **k): pass

    def shuffle(self, seq):
        items = list(seq)
        order = self._next('shuffle', len(items))
        for pos, src in enumerate(order):
            seq[pos] = items[src]

    def Random(self, seed=None): return _private_generator(self.env, seed, self.entropy, PRIVATE)

    def default_rng(self, seed=None): return _private_generator(self.env, seed, self.entropy, PRIVATE)

    RandomState = default_rng

    def __getattr__(self, name):
        raise HarnessError(f"random.{name} is not modelled")


class _Diverged(Exception):
    pass


PRIVATE = []     # (seed, run-tag) of every private generator created


def _private_generator(env, seed, entropy, sink):
    sink.append((seed, entropy.tag))
    gen = types.SimpleNamespace()
    counter = {'n': 0}

    def draw(*a, **k):
        counter['n'] += 1
        if seed is None:
            return entropy._fresh('unseeded_generator')
        return env.uf('PRNG', 2)(seed if not isinstance(seed, (str, bytes)) else len(seed), counter['n'])
    gen.random = draw
    gen.uniform = lambda a, b: a + (b - a) * draw()
    def randrange(a, b=None, step=1):
        if b is None:
            a, b = 0, a
        if seed is None:          # entropy-seeded: an arbitrary outcome, independent in the two runs
            return a + env.choose(len(range(a, b, step)), label=('private_randrange', entropy.tag))
        raise HarnessError("seeded private generator randrange not modelled")
    gen.randrange = randrange
    gen.randint = lambda a, b: randrange(a, b + 1)
    return gen


class RecordingRandom(RandomStub):
    """run A: the forking stub, plus private-generator constructors"""

    def __init__(self, env, entropy):
        super().__init__(env)
        self.__dict__['entropy'] = entropy

    def Random(self, seed=None): return _private_generator(self.env, seed, self.__dict__['entropy'], PRIVATE)


class RecordingNp(NpRandomStub):
    def __init__(self, env, entropy):
        super().__init__(env)
        self.__dict__['entropy'] = entropy

    def default_rng(self, seed=None): return _private_generator(self.env, seed, self.__dict__['entropy'], PRIVATE)

    RandomState = default_rng


class _patched_entropy:
    """on top of symx.stubs.patched: shims for time / os / uuid / secrets / datetime and id() in every ixai module"""

    def __init__(self, env, py, np_, entropy, id_base):
        self.env, self.py, self.np_, self.entropy, self.id_base = env, py, np_, entropy, id_base

    def __enter__(self):
        self.cm = patched(self.env, py_random=self.py, np_random=self.np_)
        ctx = self.cm.__enter__()
        self.saved = []
        ids = {}
        base = self.id_base

        def fake_id(obj):
            return ids.setdefault(id(obj), base + 7 * len(ids))
        for name, m in list(sys.modules.items()):
            if m is None or not (name == 'ixai' or name.startswith('ixai.')):
                continue
            d = m.__dict__
            for attr in ('time', 'os', 'uuid', 'secrets', 'datetime'):
                if isinstance(d.get(attr), types.ModuleType):
                    self.saved.append((d, attr, d[attr], True))
                    d[attr] = self.entropy.module(attr)
            self.saved.append((d, 'id', d.get('id'), 'id' in d))
            d['id'] = fake_id
        return ctx

    def __exit__(self, *exc):
        for d, attr, old, had in reversed(self.saved):
            if had:
                d[attr] = old
            else:
                d.pop(attr, None)
        return self.cm.__exit__(*exc)


# ---- scenarios -----------------------------------------------------------------------------------------

def scenario(env, cfg):
    PRIVATE.clear()
    return globals()['_' + cfg['group']](env, cfg)


def _prelude(env):
    """other library objects created and used before run B (their draws come from a separate, unrelated stream)"""
    ent = Entropy(env, 'P')
    py, np_ = RecordingRandom(env, ent), RecordingNp(env, ent)
    py.tag = 'prelude'
    # the prelude's own draws must not fork the exploration: use a scripted single outcome
    py.randrange = lambda a, b=None, step=1: 0
    py.randint = lambda a, b: a
    np_.permutation = lambda seq: _real_np.arange(seq) if isinstance(seq, int) else _real_np.asarray(list(seq))
    with _patched_entropy(env, py, np_, ent, 5000):
        st = GeometricReservoirStorage(size=1, constant_probability=1.0)
        for i in range(3):
            st.update({'f0': i, 'f1': -i}, i)
        u = UniformReservoirStorage(size=1)
        u.update({'f0': 0}, 0)
        t = MultiValueTracker(WelfordTracker())
        t.update({'a': 1, 'b': 2})
        names = names_for('str', 2)
        m = UFModel(env, names, name='Mprelude')
        imp = MarginalImputer(m, 'joint', st)
        imp.impute(['f0'], {'f0': 1, 'f1': 2}, 2)


def _fresh_str(s):
    """an equal string that is a different object (as one parsed from JSON / argv / a config file would be)"""
    out = ''.join(list(s))
    assert out == s and (out is not s or len(s) < 2)
    return out


def _build(env, cfg, data, fresh=False):
    """fresh=False: configuration values are the interned literals a script would contain; fresh=True: equal-by-value copies
    with other identities (strings from a parser).  "Identically configured" means equal, not identical."""
    import sys as _sys
    cls = IncrementalSage if cfg['cls'] == 'IncrementalSage' else IncrementalPFI
    if cfg.get('share') and 'names_object' in data:
        names = data['names_object']          # the caller re-uses their own (mutable) list of feature names for the next explainer
        fresh = False
    else:
        names = names_for('str', cfg['d'])
        names = [_fresh_str(n) for n in names] if fresh else [_sys.intern(n) for n in names]
        data['names_object'] = names
    strategy = _fresh_str(cfg['imputer']) if fresh else _sys.intern(cfg['imputer'])
    model, loss = UFModel(env, names), UFLoss(env)
    dynamic = cfg['mode'] == 'dynamic'
    kw = dict(n_inner_samples=cfg['q'], dynamic_setting=dynamic)
    if dynamic:
        kw['smoothing_alpha'] = data['alpha']
    st = cfg['storage']
    storage = None
    if st == 'batch':
        storage = BatchStorage()
    elif st == 'interval':
        storage = IntervalStorage(size=cfg['cap'])
    elif st == 'uniform':
        storage = UniformReservoirStorage(size=cfg['cap'])
    elif st == 'geometric':
        storage = GeometricReservoirStorage(size=cfg['cap'], constant_probability=data['p'])
    if storage is not None:
        kw['storage'] = storage
        kw['imputer'] = MarginalImputer(model, strategy, storage)
    ex = cls(model, loss, names, **kw)
    return ex


def _observe(ex):
    xs, ys = ex._storage.get_data()
    return {'imp': dict(ex.importance_values), 'var': dict(ex.variances), 'x': list(xs), 'y': list(ys),
            'extra': (ex.marginal_loss, ex.model_loss) if isinstance(ex, IncrementalSage) else ()}


def _run(env, cfg, data, py, np_, entropy, id_base):
    obs = []
    with _patched_entropy(env, py, np_, entropy, id_base):
        ex = _build(env, cfg, data, fresh=(id_base != 1000))      # replay B: equal configuration, other object identities
        for (x, y) in data['stream']:
            ex.explain_one(x, y)
            obs.append(_observe(ex))
    return obs


def _compare(env, a, b, tag=''):
    env.claim(f"same_number_of_observations{tag}", len(a) == len(b))
    for t, (oa, ob) in enumerate(zip(a, b)):
        env.claim(f"storage_contents_identical{tag}", len(oa['x']) == len(ob['x']) and all(p is q for p, q in zip(oa['x'], ob['x']))
                  and len(oa['y']) == len(ob['y']) and all(same_term(p, q) for p, q in zip(oa['y'], ob['y'])),
                  detail=f"after call {t + 1}")
        env.claim(f"importance_keys_identical{tag}", list(oa['imp'].keys()) == list(ob['imp'].keys()))
        if set(oa['imp'].keys()) == set(ob['imp'].keys()):
            env.claim(f"importance_values_identical{tag}", And(*[eq(oa['imp'][k], ob['imp'][k]) for k in oa['imp']])
                      if oa['imp'] else True, detail=f"after call {t + 1}")
            env.claim(f"variances_identical{tag}", And(*[eq(oa['var'][k], ob['var'][k]) for k in oa['var']])
                      if oa['var'] else True, detail=f"after call {t + 1}")
        if oa['extra']:
            env.claim(f"losses_identical{tag}", And(*[eq(p, q) for p, q in zip(oa['extra'], ob['extra'])]))


def _selfcomp(env, cfg):
    names = names_for('str', cfg['d'])
    data = {'stream': [(sym_row(env, names, f"x{t}"), env.real(f"y{t}")) for t in range(cfg['T'])]}
    if cfg['mode'] == 'dynamic':
        data['alpha'] = env.real('alpha')
        env.assume(And(data['alpha'] > 0, data['alpha'] <= 1))
    if cfg['storage'] == 'geometric':
        data['p'] = env.real('p')
        env.assume(And(data['p'] >= 0, data['p'] <= 1))
    ent_a, ent_b = Entropy(env, 'A'), Entropy(env, 'B')
    py_a, np_a = RecordingRandom(env, ent_a), RecordingNp(env, ent_a)
    obs_a = guarded(env, 'run_A', _run, env, cfg, data, py_a, np_a, ent_a, 1000)
    _prelude(env)
    py_b = ReplayRandom(env, py_a.calls, ent_b)
    np_b = ReplayRandom(env, np_a.calls, ent_b, kind='np')
    try:
        obs_b = guarded(env, 'run_B', _run, env, cfg, data, py_b, np_b, ent_b, 2000, allow=(_Diverged,))
    except _Diverged:
        env.claim('draw_sequence_identical', False, detail='; '.join(py_b.diverged + np_b.diverged))
        return
    env.claim('draw_sequence_identical', py_b.i == len(py_a.calls) and np_b.i == len(np_a.calls),
              detail=f"run B consumed {py_b.i}/{len(py_a.calls)} python and {np_b.i}/{len(np_a.calls)} numpy draws")
    _compare(env, obs_a, obs_b)
    env.claim('no_unseeded_private_generator', all(seed is not None for seed, _tag in PRIVATE),
              detail=f"private generators created: {PRIVATE}")
    env.canary('runs_are_not_trivially_empty', len(obs_a[-1]['imp']) == 0)


def _selfcomp_batch(env, cfg):
    cls = IntervalSage if cfg['cls'] == 'IntervalSage' else BatchSage
    names = names_for('str', cfg['d'])
    stream = [(sym_row(env, names, f"x{t}"), env.real(f"y{t}")) for t in range(cfg['n'])]

    def run(py, np_, ent, base):
        out = []
        with _patched_entropy(env, py, np_, ent, base):
            model, loss = UFModel(env, names), UFLoss(env)
            kw = dict(n_inner_samples=cfg['q'])
            if cls is IntervalSage:
                kw.update(interval_length=1, storage_length=cfg['n'])
            ex = cls(model, names, loss, **kw)
            for (x, y) in stream:
                kw2 = {'verbose': False}
                ex.explain_one(x, y, **kw2)
                out.append({'imp': dict(ex.importance_values), 'var': {}, 'x': list(ex._storage.get_data()[0]),
                            'y': list(ex._storage.get_data()[1]), 'extra': ()})
        return out
    ent_a, ent_b = Entropy(env, 'A'), Entropy(env, 'B')
    py_a, np_a = RecordingRandom(env, ent_a), RecordingNp(env, ent_a)
    obs_a = guarded(env, 'run_A', run, py_a, np_a, ent_a, 1000)
    _prelude(env)
    py_b, np_b = ReplayRandom(env, py_a.calls, ent_b), ReplayRandom(env, np_a.calls, ent_b, kind='np')
    try:
        obs_b = guarded(env, 'run_B', run, py_b, np_b, ent_b, 2000, allow=(_Diverged,))
    except _Diverged:
        env.claim('draw_sequence_identical', False, detail='; '.join(py_b.diverged + np_b.diverged))
        return
    env.claim('draw_sequence_identical', py_b.i == len(py_a.calls) and np_b.i == len(np_a.calls))
    _compare(env, obs_a, obs_b)


def _selfcomp_storage(env, cfg):
    """storages on their own: contents after every update"""
    stream = [({'f0': env.real(f"v{t}")}, env.real(f"y{t}")) for t in range(cfg['T'])]
    p = env.real('p')
    env.assume(And(p >= 0, p <= 1))

    def run(py, np_, ent, base):
        out = []
        with _patched_entropy(env, py, np_, ent, base):
            st = UniformReservoirStorage(size=cfg['cap'], store_targets=True) if cfg['storage'] == 'uniform' else \
                GeometricReservoirStorage(size=cfg['cap'], constant_probability=p, store_targets=True)
            for (x, y) in stream:
                st.update(x, y)
                out.append({'imp': {}, 'var': {}, 'x': list(st.get_data()[0]), 'y': list(st.get_data()[1]), 'extra': ()})
        return out
    ent_a, ent_b = Entropy(env, 'A'), Entropy(env, 'B')
    py_a, np_a = RecordingRandom(env, ent_a), RecordingNp(env, ent_a)
    obs_a = guarded(env, 'run_A', run, py_a, np_a, ent_a, 1000)
    _prelude(env)
    py_b, np_b = ReplayRandom(env, py_a.calls, ent_b), ReplayRandom(env, np_a.calls, ent_b, kind='np')
    try:
        obs_b = guarded(env, 'run_B', run, py_b, np_b, ent_b, 2000, allow=(_Diverged,))
    except _Diverged:
        env.claim('draw_sequence_identical', False, detail='; '.join(py_b.diverged + np_b.diverged))
        return
    env.claim('draw_sequence_identical', py_b.i == len(py_a.calls))
    _compare(env, obs_a, obs_b)


def _private_generators(env, cfg):
    """construct every storage / imputer / explainer with its documented defaults: no private generator may be unseeded"""
    ent = Entropy(env, 'A')
    py, np_ = RecordingRandom(env, ent), RecordingNp(env, ent)
    names = names_for('str', 2)
    with _patched_entropy(env, py, np_, ent, 1000):
        model, loss = UFModel(env, names), UFLoss(env)
        objs = [BatchStorage(), IntervalStorage(size=3), SequenceStorage(), UniformReservoirStorage(), GeometricReservoirStorage(size=3)]
        objs.append(MarginalImputer(model, 'joint', objs[0]))
        objs.append(DefaultImputer(model, {n: 0 for n in names}))
        objs.append(IncrementalSage(model, loss, names))
        objs.append(IncrementalPFI(model, loss, names))
        objs.append(BatchSage(model, names, loss))
        objs.append(IntervalSage(model, names, loss))
    env.claim('no_unseeded_private_generator', all(seed is not None for seed, _ in PRIVATE), detail=str(PRIVATE))
    env.claim('no_other_entropy_source_touched', ent.n == 0, detail=str(ent.used))
    reseeds = [c for c in list(py.calls) + list(np_.calls) if c[0] == 'seed']
    env.claim('constructors_do_not_reseed_the_global_generators', not reseeds,
              detail=f"random.seed / numpy.random.seed called by library constructors with {[c[1] for c in reseeds]}")
    from symx import core
    shared = getattr(core.PATH_RESET_HOOKS[0], 'functions', []) if core.PATH_RESET_HOOKS else []
    env.claim('no_mutable_object_shared_through_default_arguments', not shared,
              detail=f"evaluated once at import and shared by every instance in the process: {shared}")
    gens = getattr(core.PATH_RESET_HOOKS[0], 'import_time_generators', []) if core.PATH_RESET_HOOKS else []
    env.claim('no_generator_object_created_at_import_time', not gens,
              detail=f"private generators living on a module or class (seeded once per process, not by the global seeds): {gens}")
    containers = getattr(core.PATH_RESET_HOOKS[0], 'shared_containers', []) if core.PATH_RESET_HOOKS else []
    env.claim('no_mutable_container_on_a_class_or_module', not containers,
              detail=f"process-wide mutable state shared by all instances: {containers}")


def _tree_seed(env, cfg):
    """TreeStorage's river learners own private generators: they must not be entropy-seeded by default"""
    import warnings
    from ixai.storage.tree_storage import TreeStorage
    with warnings.catch_warnings():
        warnings.simplefilter('ignore')
        if env.mode == 'conc':
            return _tree_seed_replay(env)
        _real_random.seed(11)
        _real_np.random.seed(11)
        ts = TreeStorage(cat_feature_names=['c1', 'c2'], num_feature_names=['a'])
        seeds = {f: getattr(m, 'seed', 'n/a') for f, m in ts._storage_x.items()}
        env.notes['tree_learner_seeds_with_default_arguments'] = {k: repr(v) for k, v in seeds.items()}
        env.claim('tree_learners_not_entropy_seeded_by_default', all(s is not None for s in seeds.values()),
                  detail=f"TreeStorage() builds river learners with seed={seeds}: river then uses random.Random(None), i.e. OS entropy")
        ts2 = TreeStorage(cat_feature_names=['c1', 'c2'], num_feature_names=['a'], seed=5)
        env.claim('explicit_seed_forwarded', all(getattr(m, 'seed', None) == 5 for m in ts2._storage_x.values()))
        changed = _import_side_effects()
        env.claim('importing_the_library_leaves_process_wide_state_alone', not changed,
                  detail=f"changed by `import ixai` (before, after): {changed}")
        diff = _first_and_second_object_in_a_process()
        env.claim('first_and_second_default_TreeStorage_of_a_process_replay_alike', not diff,
                  detail=f"identically seeded, first vs second object in a fresh interpreter (first, second): {diff}")
        del RESEEDS[:]
        env.claim('construction_leaves_the_global_generators_reproducible', _states_after_construction() == _states_after_construction(),
                  detail='after seeding both global generators identically and constructing TreeStorage(), TreeImputer and the '
                         'other library objects, the states of random / numpy.random differ between two runs: a constructor '
                         're-seeded a global generator from entropy')
        env.claim('constructors_never_reseed_a_global_generator', not RESEEDS,
                  detail=f"calls made while constructing storages / imputers (an explicit seed argument belongs to the object, not to "
                         f"the process-wide generators every other component draws from): {RESEEDS[:4]}")


RESEEDS = []


def _import_side_effects():
    """process-wide interpreter state before / after `import ixai` in a fresh interpreter: warning filters, NumPy's
    floating-point error handling and print options, the global generator states"""
    import json
    import subprocess
    import sys
    code = (
        "import json, random, warnings, numpy as np\n"
        "random.seed(5); np.random.seed(5)\n"
        "def snap():\n"
        "    st = np.random.get_state()\n"
        "    return {'warning_filters': [str(f) for f in warnings.filters], 'numpy_errstate': np.geterr(),\n"
        "            'numpy_printoptions': {k: str(v) for k, v in np.get_printoptions().items()},\n"
        "            'python_generator': hash(random.getstate()), 'numpy_generator': hash(st[1].tobytes()) ^ st[2]}\n"
        "import river, sklearn, tqdm\n"            # third-party imports of the library are not the library's side effects
        "try:\n    import torch\nexcept Exception:\n    pass\n"
        "before = snap()\n"
        "import ixai, ixai.explainer, ixai.storage, ixai.imputer, ixai.utils.tracker, ixai.utils.wrappers, ixai.utils.validators\n"
        "after = snap()\n"
        "print(json.dumps({k: [before[k], after[k]] for k in before if before[k] != after[k]}))\n")
    r = subprocess.run([sys.executable, '-c', code], capture_output=True, text=True, timeout=600)
    if r.returncode != 0:
        raise HarnessError(f"import probe failed: {r.stderr[-400:]}")
    return json.loads(r.stdout.strip().splitlines()[-1])


def _first_and_second_object_in_a_process():
    """fresh interpreter: seed both generators, build a default TreeStorage, note learner seeds and generator states; seed
    again identically, build a second one: same seeds, same states (the first object of a process is not special)"""
    import json
    import subprocess
    import sys
    code = (
        "import json, random, warnings, numpy as np\n"
        "warnings.simplefilter('ignore')\n"
        "from ixai.storage.tree_storage import TreeStorage\n"
        "def one():\n"
        "    random.seed(11); np.random.seed(11)\n"
        "    ts = TreeStorage(cat_feature_names=['c1'], num_feature_names=['a'])\n"
        "    st = np.random.get_state()\n"
        "    return {'learner_seeds': {k: repr(getattr(m, 'seed', None)) for k, m in ts._storage_x.items()},\n"
        "            'python_generator': hash(random.getstate()), 'numpy_generator': hash(st[1].tobytes()) ^ st[2]}\n"
        "a = one(); b = one()\n"
        "print(json.dumps({k: [a[k], b[k]] for k in a if a[k] != b[k]}))\n")
    r = subprocess.run([sys.executable, '-c', code], capture_output=True, text=True, timeout=600)
    if r.returncode != 0:
        raise HarnessError(f"first/second object probe failed: {r.stderr[-400:]}")
    return json.loads(r.stdout.strip().splitlines()[-1])


def _states_after_construction():
    """state of both global generators after building one object of every storage / imputer class from identical seeds;
    every call of random.seed / numpy.random.seed made on the way is recorded in RESEEDS"""
    from ixai.storage.tree_storage import TreeStorage
    from ixai.imputer import TreeImputer
    _real_random.seed(23)
    _real_np.random.seed(23)
    real_py_seed, real_np_seed = _real_random.seed, _real_np.random.seed
    _real_random.seed = lambda *a, **k: (RESEEDS.append(('random.seed', a)), real_py_seed(*a, **k))[1]
    _real_np.random.seed = lambda *a, **k: (RESEEDS.append(('numpy.random.seed', a)), real_np_seed(*a, **k))[1]
    try:
        return _construct_everything(TreeStorage, TreeImputer)
    finally:
        _real_random.seed, _real_np.random.seed = real_py_seed, real_np_seed


def _construct_everything(TreeStorage, TreeImputer):
    ts = TreeStorage(cat_feature_names=['c1'], num_feature_names=['a'])
    TreeStorage(cat_feature_names=['c1'], num_feature_names=['a'], seed=None)
    TreeStorage(cat_feature_names=['c1'], num_feature_names=['a'], seed=7)
    model = lambda x: {'output': 0.0}         # noqa: E731
    TreeImputer(model, ts)
    for o in (BatchStorage(), IntervalStorage(size=3), SequenceStorage(), UniformReservoirStorage(), GeometricReservoirStorage(size=3)):
        MarginalImputer(model, 'joint', o)
    DefaultImputer(model, {'a': 0})
    st = _real_np.random.get_state()
    return (_real_random.getstate(), (st[0], st[1].tolist(), st[2], st[3], st[4]))


def _tree_run(seed_kw):
    from ixai.storage.tree_storage import TreeStorage
    _real_random.seed(1)
    _real_np.random.seed(1)
    ts = TreeStorage(cat_feature_names=['c1', 'c2'], num_feature_names=['a'], grace_period=10, max_depth=3,
                     leaf_reservoir_length=5, **seed_kw)
    rng = _real_random.Random(7)
    for i in range(1000):
        c1 = rng.choice([0, 1, 2])
        c2 = rng.choice([0, 1])
        a = rng.random() + (c1 if i < 500 else -c1)
        ts.update({'c1': c1, 'c2': c2, 'a': a})
    keys = {f: sorted(ts.data_reservoirs[f].keys()) for f in ts.feature_names}
    rows = {f: [tuple(sorted(r.items())) for k in sorted(ts.data_reservoirs[f]) for r in ts.data_reservoirs[f][k].get_data()[0]]
            for f in ts.feature_names}
    return keys, rows


def _tree_seed_replay(env):
    """two real replays of a 1000-point drifting stream with both global generators seeded identically"""
    del RESEEDS[:]
    env.claim('construction_leaves_the_global_generators_reproducible', _states_after_construction() == _states_after_construction())
    env.claim('constructors_never_reseed_a_global_generator', not RESEEDS, detail=f"{RESEEDS[:4]}")
    changed = _import_side_effects()
    env.claim('importing_the_library_leaves_process_wide_state_alone', not changed, detail=f"changed by `import ixai` (before, after): {changed}")
    diff = _first_and_second_object_in_a_process()
    env.claim('first_and_second_default_TreeStorage_of_a_process_replay_alike', not diff,
              detail=f"identically seeded, first vs second object in a fresh interpreter (first, second): {diff}")
    a, b = _tree_run({}), _tree_run({})
    env.claim('tree_learners_not_entropy_seeded_by_default', a == b,
              detail='two identically seeded replays of TreeStorage() (default seed) ended with different leaf reservoirs')
    c, d = _tree_run({'seed': 42}), _tree_run({'seed': 42})
    env.claim('explicit_seed_reproducible', c == d)


META['explanation'] += ' Structural claims: no generator object, mutable container or mutable default argument lives on a module / class of the computing packages.'

META['explanation'] += ' Replay A is configured with interned literals, replay B with equal-by-value copies of other identity (strings as a parser would produce them): identically configured means equal, not identical.'

META['explanation'] += ' Constructors never call seed() on a global generator; importing the library in a fresh interpreter leaves warning filters, NumPy error state and the generator states unchanged; functools caches are cleared before every path; configurations in which replay B is given the very objects of replay A; in a fresh interpreter the first and the second default TreeStorage, built from identical seeds, get the same learner seeds and leave the same generator states.'
