"""C19 - TreeStorage reservoirs track current leaves; TreeImputer uses observed values (reduced scope, stated).

river's Hoeffding-tree learners cannot be encoded.  The real TreeStorage / TreeImputer code is executed against an
ABSTRACT tree model that offers exactly the node API iXAI uses (children, next, branch_no, repr_split, total_weight,
leaves without children / next, traverse, leaf statistics, predict_one / predict_proba_one), routes on symbolic feature
values against symbolic thresholds, and whose learn_one may nondeterministically restructure the routed path.
"""
import itertools

import z3

from symx import And, Or, Not, Implies, eq, same_term, Sym, HarnessError
from symx.stubs import patched, UFModel, NpRandomStub
from .common import guarded, sym_row

from ixai.storage.tree_storage import TreeStorage, NODE_SEPERATOR
from ixai.storage import GeometricReservoirStorage
from ixai.imputer import TreeImputer

ID = 'C19'
FEATURES = ['c', 'a']          # one categorical, one numerical feature
CLASSES = [10, 20, 30]      # categorical values are numeric codes (as in the repository's own tree-storage test)

META = {
    'level': 'other',
    'explanation': 'Real TreeStorage.update / _update_data_reservoirs / get_path_through_tree / get_all_tree_paths / '
                   '_delete_outdated_reservoirs and TreeImputer.impute (both modes) against an abstract tree per feature: all '
                   'shapes up to depth 2, symbolic thresholds and feature values (routing forks), learn_one may keep, split or '
                   'prune the routed path (fork). After every update: length, reservoir sizes, complete observed rows, newest '
                   'observation in the routed leaf\'s reservoir, reservoir keys = current leaves, both path functions agree. '
                   'Imputer: only requested features change, storage mode takes the value from the routed leaf\'s reservoir and falls '
                   'back only when that leaf has none, categorical values are observed classes, n_samples predictions, nothing modified.',
    'bounds': {'quick': {'tree depth': '<= 2', 'updates': 2, 'leaf reservoir length': 2, 'n_samples': '1..2'},
               'thorough': {'tree depth': '<= 2', 'updates': 3, 'leaf reservoir length': 2, 'n_samples': '1..2'}},
    'outside': ['everything river\'s learners do (when and how trees split, prune, swap alternate subtrees under drift)',
                'restructuring that is NOT on the routed path of the instance being learned (then stale reservoir keys survive until a '
                'new leaf id appears: the "only current leaves" clause is claimed under the stub assumption only)',
                'the distribution of TreeImputer\'s draws (np.random.normal / random.choices are arbitrary outcomes here)'],
    'assumptions': ['abstract tree: learn_one restructures only the routed path and new nodes have new identities (str)',
                    'feature trees never split on their own target feature', 'river Rolling metrics replaced by no-ops',
                    'np.random.normal returns an arbitrary real; random.choices an arbitrary element with positive weight'],
}


def configs(tier):
    cfgs = []
    T = 2 if tier == 'quick' else 3
    for shape in ('leaf', 'stump', 'left2', 'right2'):
        for vary in FEATURES:       # the tree of this feature has the given shape and is restructured by learn_one
            cfgs.append(dict(group='storage', shape=shape, vary=vary, T=T, _cost=3 ** T * 4 ** T))
        for use_storage in (True, False):
            for direct in (False, True):
                cfgs.append(dict(group='imputer', shape=shape, use_storage=use_storage, direct=direct,
                                 q=2 if (use_storage or tier == 'thorough') else 1, _cost=200))
    for shape in ('leaf', 'stump'):
        for use_storage in (True, False):
            cfgs.append(dict(group='imputer', shape=shape, use_storage=use_storage, direct=False, q=2 if use_storage else 1, early=True, _cost=200))
            cfgs.append(dict(group='imputer', shape=shape, use_storage=use_storage, direct=False, q=1, warm=True, _cost=400))
    cfgs.append(dict(group='paths_agree'))
    for shape in ('leaf', 'stump'):
        cfgs.append(dict(group='imputer_history', shape=shape, vary='a', _cost=600))
        cfgs.append(dict(group='imputer_history', shape=shape, vary='c', _cost=600))
    # legal but unusual values of one feature in one update: IEEE specials, NumPy scalars, zero / False (falsy)
    for val in ('nan', 'npnan', 'inf', 'zero', 'false', 'npint'):
        for feat in FEATURES:
            cfgs.append(dict(group='storage', shape='stump', vary=feat, T=2, special=(val, feat, 1), _cost=300))
        cfgs.append(dict(group='storage', shape='leaf', vary='a', T=2, special=(val, 'a', 0), _cost=300))
    # three updates: both leaves of a branch hold a reservoir before learn_one prunes it (several reservoirs outdated at once)
    cfgs.append(dict(group='storage', shape='stump', vary='a', T=3, _cost=5000))
    return cfgs


def scenario(env, cfg):
    with patched(env, np_random=_NpRandom(env)) as ctx:
        return globals()['_' + cfg['group']](env, cfg, ctx)


class _NpRandom(NpRandomStub):
    def __init__(self, env):
        super().__init__(env)
        self.__dict__['n'] = 0
        self.__dict__['normals'] = []

    def normal(self, loc=0.0, scale=1.0, size=None):
        self.__dict__['n'] += 1
        v = self.env.real(f"normal_{self.__dict__['n']}")
        self.__dict__['normals'].append(v)
        if size is not None:
            import numpy as np
            arr = np.empty(size if isinstance(size, tuple) else (size,), dtype=object)
            arr[...] = v
            return arr
        return v


# ---- abstract tree ------------------------------------------------------------------------------------

_counter = itertools.count()


class _Stat:
    def __init__(self, env, name):
        self.n = 5
        self.mean = self
        self._m, self._v = env.real(f"{name}_mean"), env.real(f"{name}_var")

    def get(self):
        return self._v

    class _M:
        pass


class ALeaf:
    def __init__(self, env):
        self.uid = next(_counter)
        self.env = env
        self.total_weight = 3 + self.uid % 2
        self.stats = _LeafStats(env, f"leaf{self.uid}")

    def __str__(self):
        return f"<ALeaf #{self.uid}>"
    __repr__ = __str__

    def traverse(self, x, until_leaf=True):
        return [self]


class _LeafStats:
    def __init__(self, env, name):
        self.n = 4
        self._mean = env.real(f"{name}_mean")
        self._var = env.real(f"{name}_var")
        outer = self

        class _Mean:
            def get(self_inner):
                return outer._mean
        self.mean = _Mean()

    def get(self):
        return self._var


class ABranch:
    def __init__(self, env, feature, children):
        self.uid = next(_counter)
        self.env = env
        self.feature = feature
        self.threshold = env.real(f"thr{self.uid}")
        self.children = tuple(children)
        self.total_weight = sum(c.total_weight for c in children)

    def __str__(self):
        return f"<ABranch #{self.uid}>"
    __repr__ = __str__

    @property
    def repr_split(self):
        return f"{self.feature} <= thr{self.uid}"

    def branch_no(self, x):
        v = x[self.feature]
        if isinstance(v, float) and (v != v or v in (float('inf'), float('-inf'))):
            return 0 if v == float('-inf') else 1        # IEEE: NaN <= t is false, +inf <= t is false
        key = v.t.get_id() if isinstance(v, Sym) else ('c', repr(v), getattr(v, '_tag', None))
        memo = self.__dict__.setdefault('_memo', {})
        if key not in memo:
            memo[key] = 0 if bool(v <= self.threshold) else 1
        return memo[key]

    def next(self, x):
        return self.children[self.branch_no(x)]

    def traverse(self, x, until_leaf=True):
        node = self
        while isinstance(node, ABranch):
            node = node.next(x)
        return [node]


class ATree:
    """stands in for a river Hoeffding tree trained to predict `target` from the other features"""

    def __init__(self, env, target, others, shape, restructure=True):
        self.env, self.target, self.others, self.restructure = env, target, others, restructure
        f = others[0]
        L = lambda: ALeaf(env)          # noqa: E731
        self._root = {'leaf': lambda: L(), 'stump': lambda: ABranch(env, f, (L(), L())),
                      'left2': lambda: ABranch(env, f, (ABranch(env, f, (L(), L())), L())),
                      'right2': lambda: ABranch(env, f, (L(), ABranch(env, f, (L(), L()))))}[shape]()
        self.learned = []
        self.n_pred = 0

    def _route(self, x):
        parent, node, idx = None, self._root, None
        while isinstance(node, ABranch):
            i = node.branch_no(x)
            parent, idx, node = node, i, node.children[i]
            grand = None
        return node

    def _path(self, x):
        path = [self._root]
        while isinstance(path[-1], ABranch):
            path.append(path[-1].next(x))
        return path

    def learn_one(self, x, y):
        self.learned.append((x, y))
        if not self.restructure:
            return
        path = self._path(x)
        depth = len(path) - 1
        options = ['keep']
        if depth < 2:
            options.append('split')
        if depth >= 1:
            options.append('prune')
        act = options[self.env.choose(len(options), label=('learn', self.target))]
        if act == 'split':
            new = ABranch(self.env, self.others[0], (ALeaf(self.env), ALeaf(self.env)))
            self._replace(path, len(path) - 1, new)
        elif act == 'prune':
            self._replace(path, len(path) - 2, ALeaf(self.env))

    def _replace(self, path, i, new):
        if i == 0:
            self._root = new
            return
        parent = path[i - 1]
        parent.children = tuple(new if c is path[i] else c for c in parent.children)

    def predict_one(self, x):
        self.n_pred += 1
        if self.target == 'c':
            return CLASSES[0]
        return self.env.real(f"treepred_{self.target}_{self.n_pred}")

    def predict_proba_one(self, x):
        return {CLASSES[0]: 1, CLASSES[1]: 2}      # the classes this classifier has observed, with positive weights

    def leaves(self):
        out = []

        def rec(n):
            if isinstance(n, ABranch):
                for c in n.children:
                    rec(c)
            else:
                out.append(n)
        rec(self._root)
        return out


class _NoMetric:
    def update(self, *a, **k):
        return self


def _leaf_id(tree, x):
    """the documented id of the leaf x is routed to: node | split | branch number, separated by the node separator"""
    out = ''
    node = tree._root
    while isinstance(node, ABranch):
        i = node.branch_no(x)
        out += f"{node}|{node.repr_split}|{i}{NODE_SEPERATOR}"
        node = node.children[i]
    return out + f"{node}{NODE_SEPERATOR}", node


def _all_leaf_ids(tree):
    out = []

    def rec(node, prefix):
        if isinstance(node, ABranch):
            for i, c in enumerate(node.children):
                rec(c, prefix + f"{node}|{node.repr_split}|{i}{NODE_SEPERATOR}")
        else:
            out.append(prefix + f"{node}{NODE_SEPERATOR}")
    rec(tree._root, '')
    return out


def _make_storage(env, cfg, restructure=True):
    ts = guarded(env, 'ctor', TreeStorage, cat_feature_names=['c'], num_feature_names=['a'], leaf_reservoir_length=2, seed=1)
    trees = {}
    for f in FEATURES:
        others = [g for g in FEATURES if g != f]
        trees[f] = ATree(env, f, others, cfg['shape'] if f == cfg.get('vary', 'a') else 'stump',
                         restructure=restructure and f == cfg.get('vary', 'a'))
        ts._storage_x[f] = trees[f]
        ts.performances[f] = _NoMetric()
    return ts, trees


_SPECIAL = {'nan': lambda: float('nan'), 'npnan': lambda: __import__('numpy').float64('nan'), 'inf': lambda: float('inf'),
            'zero': lambda: 0.0, 'false': lambda: False, 'npint': lambda: __import__('numpy').int64(3)}


def _row(env, t, special=None):
    # the categorical feature is routed on as a number by the abstract branch (river encodes nominal splits likewise)
    row = {'c': env.real(f"x{t}_c"), 'a': env.real(f"x{t}_a")}
    if special is not None and special[2] == t:
        row[special[1]] = _SPECIAL[special[0]]()     # a concrete, legal value of an unusual kind
    return row


def _check_storage(env, ts, trees, seen, newest, tag):
    env.claim(f"length_is_number_of_updates{tag}", len(ts) == len(seen))
    for f in FEATURES:
        res = ts.data_reservoirs[f]
        current = _all_leaf_ids(trees[f])
        env.claim(f"reservoir_keys_are_current_leaves{tag}", all(k in current for k in res.keys()),
                  detail=f"feature {f}: {len(res)} reservoirs, {len(current)} leaves")
        for k, r in res.items():
            rows = list(r.get_data()[0])
            env.claim(f"reservoir_within_capacity{tag}", isinstance(r, GeometricReservoirStorage) and len(rows) <= 2 and len(rows) >= 1)
            env.claim(f"reservoir_rows_are_complete_observed_points{tag}",
                      all(any(row is s for s in seen) and set(row.keys()) == set(FEATURES) for row in rows))
        x_wo = {g: newest[g] for g in FEATURES if g != f}
        lid, _leaf = _leaf_id(trees[f], x_wo)
        env.claim(f"newest_observation_in_routed_leaf_reservoir{tag}", lid in res and any(row is newest for row in res[lid].get_data()[0]),
                  detail=f"feature {f}")
        env.claim(f"both_path_functions_agree{tag}", ts.get_path_through_tree(trees[f]._root, x_wo) == lid and
                  sorted(_all_leaf_ids(trees[f])) == sorted(__import__('ixai.storage.tree_storage', fromlist=['x']).get_all_tree_paths(trees[f]._root)))


def _storage(env, cfg, ctx):
    ts, trees = _make_storage(env, cfg)
    env.claim('fresh_length_zero', len(ts) == 0 and all(len(ts.data_reservoirs[f]) == 0 for f in FEATURES))
    seen = []
    for t in range(cfg['T']):
        x = _row(env, t, cfg.get('special'))
        x_copy = dict(x)
        guarded(env, 'update', ts.update, x)
        seen.append(x)
        env.claim('instance_unmodified', list(x.keys()) == list(x_copy.keys()) and all(same_term(x[k], x_copy[k]) for k in x))
        _check_storage(env, ts, trees, seen, x, f"_t{t + 1}")
        for f in FEATURES:
            if len(trees[f].learned) != t + 1:
                env.claim('every_feature_tree_learns_from_every_update', False,
                          detail=f"tree of feature {f} has learned {len(trees[f].learned)} of {t + 1} updates")
                continue
            lx, ly = trees[f].learned[-1]
            env.claim('tree_learns_feature_from_the_others', f not in lx and same_term(ly, x[f]) and
                      all(same_term(lx[g], x[g]) for g in FEATURES if g != f))
    env.canary('reservoirs_not_empty', all(len(ts.data_reservoirs[f]) == 0 for f in FEATURES))


def _paths_agree(env, cfg, ctx):
    from ixai.storage.tree_storage import get_all_tree_paths
    for shape in ('leaf', 'stump', 'left2', 'right2'):
        tree = ATree(env, 'a', ['c'], shape, restructure=False)
        x = {'c': env.real(f"c_{shape}")}
        lid, leaf = _leaf_id(tree, x)
        got = guarded(env, 'get_path_through_tree', TreeStorage.get_path_through_tree, tree._root, x)
        allp = guarded(env, 'get_all_tree_paths', get_all_tree_paths, tree._root)
        env.claim('walked_path_is_documented_leaf_id', got == lid)
        env.claim('all_paths_lists_every_leaf_once', sorted(allp) == sorted(_all_leaf_ids(tree)) and len(set(allp)) == len(tree.leaves()))
        env.claim('walked_path_is_one_of_all_paths', got in allp)


def _imputer(env, cfg, ctx):
    ts, trees = _make_storage(env, cfg, restructure=False)
    seen = []
    model = UFModel(env, FEATURES)
    if cfg.get('early'):
        # the usual set-up order: storage and imputer are built first, data arrives afterwards
        imp = guarded(env, 'ctor', TreeImputer, model, ts, direct_predict_numeric=cfg['direct'], use_storage=cfg['use_storage'])
    for t in range(2):
        x = _row(env, t)
        ts.update(x)
        seen.append(x)
    if not cfg.get('early'):
        imp = guarded(env, 'ctor', TreeImputer, model, ts, direct_predict_numeric=cfg['direct'], use_storage=cfg['use_storage'])
    if cfg.get('warm'):
        # the imputer has been used before, for ALL features of another instance: nothing of that call may show in this one
        guarded(env, 'impute#warm', imp.impute, ['c', 'a'], _row(env, 7), 1)
        model.calls.clear()
    x = _row(env, 9)
    x_copy = dict(x)
    masks = [['c'], ['a'], ['c', 'a'], []]
    S = masks[env.choose(len(masks), label='subset')]
    res_before = {f: {k: list(r.get_data()[0]) for k, r in ts.data_reservoirs[f].items()} for f in FEATURES}
    n_norm = len(ctx.np_random.__dict__['normals'])
    n_pred = {f: trees[f].n_pred for f in FEATURES}
    q = cfg['q']
    preds = guarded(env, 'impute', imp.impute, list(S), x, q)
    env.claim('returns_n_samples_predictions', isinstance(preds, list) and len(preds) == q and len(model.calls) == q)
    for z, pr in zip(model.calls, preds):
        env.claim('prediction_is_model_output_of_its_input', eq(pr['output'], model.value(z)))
        for f in FEATURES:
            if f not in S:
                env.claim('only_requested_features_change', same_term(z[f], x[f]))
                continue
            lid, _leaf = _leaf_id(trees[f], {g: x[g] for g in FEATURES})
            has_res = lid in res_before[f]
            if cfg['use_storage']:
                if has_res:
                    env.claim('value_from_routed_leaf_reservoir', any(same_term(z[f], row[f]) for row in res_before[f][lid]),
                              detail=f"feature {f}")
                else:
                    env.claim('fallback_only_without_reservoir', _is_tree_value(z[f], f, ctx))
            else:
                if f == 'c':
                    env.claim('categorical_value_is_an_observed_class', (not isinstance(z[f], Sym)) and z[f] in (CLASSES[0], CLASSES[1]))
                else:
                    env.claim('numeric_value_from_the_tree', _is_tree_value(z[f], f, ctx))
    env.claim('instance_unmodified', list(x.keys()) == list(x_copy.keys()) and all(same_term(x[k], x_copy[k]) for k in x))
    env.claim('storage_unmodified', len(ts) == 2 and all(
        set(ts.data_reservoirs[f].keys()) == set(res_before[f].keys()) and
        all(list(ts.data_reservoirs[f][k].get_data()[0]) == res_before[f][k] or
            all(a is b for a, b in zip(ts.data_reservoirs[f][k].get_data()[0], res_before[f][k])) for k in res_before[f])
        for f in FEATURES))
    if S:
        env.canary('requested_feature_not_left_untouched', all(same_term(model.calls[0][f], x[f]) for f in S))


def _is_tree_value(v, f, ctx):
    """a value the tree itself produced: a class it has observed, its direct prediction, or a draw around a leaf statistic"""
    if f == 'c':
        return (not isinstance(v, Sym)) and v in CLASSES
    if isinstance(v, Sym):
        name = str(v.t)
        return name.startswith('normal_') or name.startswith('treepred_')
    return getattr(v, '_tag', '').startswith(('normal_', 'treepred_')) if hasattr(v, '_tag') else False


def _imputer_history(env, cfg, ctx):
    """impute(x); storage.update(x) - which may split or prune x's own leaf; impute(x) again with the SAME imputer and an
    equal instance: the second imputation uses the reservoir of the leaf x is routed to NOW"""
    ts, trees = _make_storage(env, cfg, restructure=True)
    x0 = _row(env, 0)
    ts.update(x0)
    model = UFModel(env, FEATURES)
    imp = guarded(env, 'ctor', TreeImputer, model, ts, direct_predict_numeric=False, use_storage=True)
    x = _row(env, 5)
    S = [cfg['vary']]
    guarded(env, 'impute#1', imp.impute, list(S), x, 1)
    guarded(env, 'update', ts.update, x)                     # the tree of feature `vary` may be restructured here
    x_again = dict(x)                                        # an equal-valued instance (e.g. a duplicate row / reused dict)
    f = cfg['vary']
    res_now = {k: list(r.get_data()[0]) for k, r in ts.data_reservoirs[f].items()}
    lid, _leaf = _leaf_id(trees[f], {g: x_again[g] for g in FEATURES})
    n0 = len(model.calls)
    guarded(env, 'impute#2', imp.impute, list(S), x_again, 1)
    z = model.calls[n0]
    if lid in res_now:
        env.claim('second_imputation_uses_the_current_leaf_reservoir', any(same_term(z[f], row[f]) for row in res_now[lid]),
                  detail=f"feature {f}: value not in the reservoir of the leaf the instance is routed to after the update")
    else:
        env.claim('fallback_only_without_reservoir', _is_tree_value(z[f], f, ctx))
    for g in FEATURES:
        if g != f:
            env.claim('only_requested_features_change', same_term(z[g], x_again[g]))


META['explanation'] += " History group: impute, an update that restructures the instance's own leaf, impute again with the same imputer."

META['explanation'] += ' Special values: one update carries a concrete NaN / NumPy NaN / inf / 0.0 / False / NumPy int in one feature (IEEE routing: NaN <= t is false).'

META['explanation'] += ' The imputer may be built before any data arrives, and may have been used before for all features of another instance (warm=True).'
