"""C13 - a river metric used as loss is a pure, smaller-is-better function of its inputs."""
import copy
import inspect

import z3

from symx import And, Or, Not, Implies, eq, ite, Sym, same_term
from symx.core import lift, to_real
from symx.stubs import patched
from .common import guarded, total

import river.metrics as rm
from river.metrics.base import Metric

from ixai.utils.validators import validate_loss_function                       # the public entry point (package level)
from ixai.utils.validators.loss import validate_loss_function as _validate_loss_function_module_level
from ixai.utils.wrappers.river import RiverMetricToLossFunction

ID = 'C13'

REAL = ['MAE', 'MSE', 'RMSE', 'MAPE', 'SMAPE', 'LogLoss', 'CrossEntropy', 'RMSLE']
EXTRA_MODULES = ('river.metrics.log_loss', 'river.metrics.cross_entropy', 'river.metrics.mse')

META = {
    'level': 'other',
    'explanation': '(a) the real validator + RiverMetricToLossFunction against an ABSTRACT metric (state = term, update/get/revert '
                   'uninterpreted with the single law revert(update(s,y,p),y,p) = s), from an arbitrary state: covers every accepted '
                   'metric and every interleaving at once; (b) the real river metrics whose update/get/revert are plain arithmetic '
                   '(MAE, MSE, RMSE, RMSLE, MAPE, SMAPE, LogLoss, CrossEntropy) with symbolic running-mean state and symbolic '
                   'y_true / y_pred: state restored and value = the closed-form single-pair value; (c) all 41 accepted metric '
                   'classes are pushed through the abstract model\'s assumptions concretely (translator validation, not a verdict).',
    'bounds': {'quick': {'calls_in_sequence': 3, 'dict_labels': '<= 3', 'sharing_wrappers': 2},
               'thorough': {'calls_in_sequence': 8, 'dict_labels': '<= 3', 'sharing_wrappers': 3}},
    'outside': ['confusion-matrix / entropy / AUC based metrics at the level of their own arithmetic (covered by the abstract model '
                'only; the law revert o update = id is river\'s contract and is validated concretely in (c))',
                'metrics that were already updated by the user before being handed to iXAI (river\'s RMSLE.revert is not the inverse '
                'of its update from a non-fresh state; iXAI always calls it from the fresh state)', 'threads'],
    'assumptions': ['river contract: revert(y, p) undoes update(y, p)', 'math.log / sqrt uninterpreted resp. by witness',
                    'the metric handed to validate_loss_function is fresh'],
}


def configs(tier):
    cfgs = []
    T = 3 if tier == 'quick' else 8
    for dict_input in (False, True):
        for bigger in (False, True):
            cfgs.append(dict(group='abstract', dict_input=dict_input, bigger=bigger, T=T))
            cfgs.append(dict(group='abstract_validator', dict_input=dict_input, bigger=bigger))
    for name in REAL:
        cfgs.append(dict(group='real', metric=name, state='fresh', T=2))
        if name != 'RMSLE':
            cfgs.append(dict(group='real', metric=name, state='arbitrary', T=1))
    cfgs.append(dict(group='concrete_validation'))
    return cfgs


def scenario(env, cfg):
    with patched(env, extra_modules=EXTRA_MODULES):
        return globals()['_' + cfg['group']](env, cfg)


# ---- (a) abstract metric ------------------------------------------------------------------------

class AbstractMetric(Metric):
    """state is a z3 term; update/get are uninterpreted; revert pops a matching update (river's contract), else REV(...)"""

    def __init__(self, env, dict_input, bigger, raise_on_scalar=True):
        self.env = env
        self.dict_input = dict_input
        self._bigger = bigger
        self.state = z3.Real('metric_state0')
        self.log = []

    @property
    def bigger_is_better(self):
        return self._bigger

    def works_with(self, model):
        return True

    def _enc(self, y_pred):
        if self.dict_input:
            if not isinstance(y_pred, dict):
                raise AttributeError("'int' object has no attribute 'items'")   # what river's dict metrics do
            labs = sorted(y_pred, key=str)
            return 'D_' + '_'.join(str(l) for l in labs), [to_real(lift(y_pred[l])) for l in labs]
        if isinstance(y_pred, dict):
            raise TypeError('scalar metric received a dict')
        return 'S', [to_real(lift(y_pred))]

    def update(self, y_true, y_pred):
        if getattr(self, 'reject_next', False):
            self.reject_next = False
            self.log.append(('update_rejected', y_true, y_pred))
            raise ValueError("math domain error")          # e.g. river's RMSLE for predictions <= -1: state untouched
        tag, args = self._enc(y_pred)
        f = z3.Function(f"UPD_{tag}", *([z3.RealSort()] * (2 + len(args))), z3.RealSort())
        self.state = f(self.state, to_real(lift(y_true)), *args)
        self.log.append(('update', y_true, y_pred))

    def revert(self, y_true, y_pred):
        tag, args = self._enc(y_pred)
        s = self.state
        want = [to_real(lift(y_true))] + args
        if z3.is_app(s) and s.decl().name() == f"UPD_{tag}" and all(a.eq(b) for a, b in zip(s.children()[1:], want)):
            self.state = s.arg(0)
        else:
            f = z3.Function(f"REV_{tag}", *([z3.RealSort()] * (2 + len(args))), z3.RealSort())
            self.state = f(s, *want)
        self.log.append(('revert', y_true, y_pred))

    def _get_of(self, state):
        if self.env.mode == 'sym':
            return Sym(z3.Function('GET', z3.RealSort(), z3.RealSort())(state))
        # concrete replay: an (injective enough) numeric image of the state term
        import zlib
        from fractions import Fraction
        return Fraction(zlib.crc32(state.sexpr().encode()) % 1000003, 101)

    def get(self):
        return self._get_of(self.state)

    def value_after(self, state, y_true, y_pred):
        tag, args = self._enc(y_pred)
        f = z3.Function(f"UPD_{tag}", *([z3.RealSort()] * (2 + len(args))), z3.RealSort())
        return self._get_of(f(state, to_real(lift(y_true)), *args))


def _abstract_validator(env, cfg):
    m = AbstractMetric(env, cfg['dict_input'], cfg['bigger'])
    s0 = m.state
    loss = guarded(env, 'validate_loss_function', validate_loss_function, m)
    env.claim('validator_returns_wrapper', isinstance(loss, RiverMetricToLossFunction))
    env.claim('validator_leaves_metric_untouched', m.state.eq(s0))
    env.claim('validator_detects_input_kind', loss._dict_input_metric == cfg['dict_input'])
    env.claim('sign_follows_bigger_is_better', loss._sign == (-1. if cfg['bigger'] else 1.))
    env.claim('wraps_the_given_object', loss._river_metric is m)
    f = guarded(env, 'validate_plain_callable', validate_loss_function, _plain)
    env.claim('plain_callable_returned_unchanged', f is _plain)
    # a second metric OBJECT of the same class (other state / parameters) gets its own loss, through either entry point
    for validate in (validate_loss_function, _validate_loss_function_module_level):
        m2 = AbstractMetric(env, cfg['dict_input'], cfg['bigger'])
        s2 = m2.state
        loss2 = guarded(env, 'validate_loss_function', validate, m2)
        env.claim('every_metric_object_gets_its_own_loss', isinstance(loss2, RiverMetricToLossFunction) and loss2._river_metric is m2
                  and loss2 is not loss and m2.state.eq(s2) and m.state.eq(s0))


def _plain(y_true, y_pred):
    return 0.0


def _abstract(env, cfg):
    m = AbstractMetric(env, cfg['dict_input'], cfg['bigger'])
    wrappers = [guarded(env, 'validate_loss_function', validate_loss_function, m) for _ in range(2)]
    s0 = m.state
    sign = -1 if cfg['bigger'] else 1
    got0 = m.get()
    for t in range(cfg['T']):
        w = wrappers[t % 2]             # two explainers sharing one metric object, interleaved
        y = env.real(f"y{t}")
        if cfg['dict_input']:
            labs = [['a'], ['a', 'b'], ['a', 'b', 'c']][t % 3]
            pred = {l: env.real(f"p{t}_{l}") for l in labs}
            seen = pred
        else:
            pred = {'output': env.real(f"p{t}")} if t % 2 == 0 else {'other': env.real(f"p{t}")}
            seen = pred.get('output', 0)
        pred_copy = dict(pred)
        val = guarded(env, 'loss_call', w, y, pred)
        env.claim('value_is_signed_single_pair_value', eq(val, sign * m.value_after(s0, y, seen)))
        env.claim('state_restored', m.state.eq(s0))
        env.claim('reported_value_unchanged', eq(m.get(), got0))
        env.claim('prediction_dict_unmodified', pred == pred_copy if False else list(pred.keys()) == list(pred_copy.keys()))
    env.canary('sign_not_ignored', eq(val, -sign * m.value_after(s0, y, seen)))
    # a caller may reuse one prediction dict and overwrite its entries in place between two calls with the same target
    key = sorted(pred.keys(), key=str)[0]
    pred[key] = env.real('p_inplace')
    seen2 = pred if cfg['dict_input'] else pred.get('output', 0)
    val2 = guarded(env, 'loss_call', w, y, pred)
    env.claim('value_follows_in_place_change_of_the_prediction_dict', eq(val2, sign * m.value_after(s0, y, seen2)))
    env.claim('state_restored', m.state.eq(s0))
    # a pair the metric cannot score: update raises (leaving the metric as it was); the error reaches the caller, the metric
    # is still untouched afterwards and the next call is answered as if nothing had happened
    m.reject_next = True
    try:
        w(y, pred)
        env.claim('rejected_pair_error_propagates', False)
    except ValueError:
        env.claim('rejected_pair_error_propagates', True)
    env.claim('state_untouched_after_rejected_pair', m.state.eq(s0), detail=f"metric call log: {[e[0] for e in m.log[-3:]]}")
    val3 = guarded(env, 'loss_call_after_rejection', w, y, pred)
    env.claim('next_call_unaffected_by_rejected_pair', eq(val3, sign * m.value_after(s0, y, seen2)))


# ---- (b) real river metrics with symbolic running-mean state -----------------------------------

def _LOG(ctx_math, x):
    return ctx_math.log(x)


def _clamp(p):
    """decided on the current path (the code under test has already forked on the same comparisons)"""
    lo, hi = 1e-15, 1 - 1e-15
    if bool(p > hi):
        return hi
    if bool(p < lo):
        return lo
    return p


def _real(env, cfg):
    import sys
    name = cfg['metric']
    metric = getattr(rm, name)()
    loss = guarded(env, 'validate_loss_function', validate_loss_function, metric)
    mean = metric._mean
    env.claim('validator_leaves_metric_fresh', bool(eq(mean.n, 0)) and bool(eq(mean._mean, 0)))
    if cfg['state'] == 'arbitrary':
        n, mu = env.real('n'), env.real('mu')
        env.assume(And(n >= 0, mu >= 0, Implies(n == 0, mu == 0)))      # every one of these metrics averages non-negatives
        mean.n, mean._mean = n, mu
    n0, mu0 = mean.n, mean._mean
    math_shim = sys.modules['river.metrics.log_loss'].math      # the shimmed math (LOG uninterpreted)
    for t in range(cfg['T']):
        if name == 'LogLoss':
            y = bool(env.choose(2, label='y_true'))
            p = env.real(f"p{t}")
            env.assume(And(p >= 0, p <= 1))
            pred = {'output': p}
            fresh = -math_shim.log(_clamp(p)) if y else -math_shim.log(1 - _clamp(p))
        elif name == 'CrossEntropy':
            labs = ['a', 'b', 'c'][:1 + env.choose(3, label='nlabels')]
            y = ['a', 'b', 'c', 'zz'][env.choose(4, label='y_true')]
            pred = {}
            for l in labs:
                pred[l] = env.real(f"p{t}_{l}")
                env.assume(And(pred[l] >= 0, pred[l] <= 1))
            fresh = 0
            for l in labs:
                if l == y:
                    fresh = fresh + math_shim.log(_clamp(pred[l]))
            fresh = -fresh
        else:
            y, p = env.real(f"y{t}"), env.real(f"p{t}")
            if name == 'RMSLE':
                env.assume(And(y > -1, p > -1))
            pred = {'output': p}
            d = y - p
            if name == 'MAE':
                fresh = abs(d)
            elif name == 'MSE':
                fresh = d * d
            elif name == 'RMSE':
                fresh = abs(d)
            elif name == 'RMSLE':
                fresh = abs(math_shim.log(y + 1) - math_shim.log(p + 1))
            elif name == 'MAPE':
                fresh = ite(y == 0, 0, 100 * abs(d) / ite(y == 0, 1, abs(y)))
            elif name == 'SMAPE':
                den = abs(y) + abs(p)
                fresh = ite(den == 0, 0, 100 * 2 * abs(d) / ite(den == 0, 1, den))
        val = guarded(env, 'loss_call', loss, y, pred)
        env.claim('state_restored', And(eq(mean.n, n0), eq(mean._mean, mu0)))
        if cfg['state'] == 'fresh':
            env.claim('value_is_fresh_single_pair_value', eq(val, fresh), detail=name)
            env.claim('smaller_is_better_sign', loss._sign == 1.0 and metric.bigger_is_better is False)
        else:
            # from a non-fresh state the wrapper reports the running mean after the pair; still pure
            upd = mu0 + (fresh - mu0) / (n0 + 1)
            if name in ('RMSE',):
                env.claim('value_is_metric_after_pair', And(val >= 0, eq(val * val, mu0 + ((y - p) * (y - p) - mu0) / (n0 + 1))))
            elif name in ('MAPE', 'SMAPE'):
                env.claim('value_is_metric_after_pair', eq(val, 100 * (mu0 + (fresh / 100 - mu0) / (n0 + 1))))
            else:
                env.claim('value_is_metric_after_pair', eq(val, upd))
    if name not in ('CrossEntropy', 'LogLoss'):
        env.canary('value_not_shifted', eq(val, fresh + 1))


# ---- (c) translator validation: the abstract model's assumptions on the real classes ------------

def _concrete_validation(env, cfg):
    import random
    rng = random.Random(13)
    n_ok = 0
    names = []
    for name in sorted(dir(rm)):
        cls = getattr(rm, name)
        if not (inspect.isclass(cls) and issubclass(cls, Metric)) or inspect.isabstract(cls):
            continue
        try:
            metric = cls()
        except Exception:
            continue
        try:
            loss = validate_loss_function(metric)
        except ValueError:
            continue
        names.append(name)
        fresh = cls()
        labels = [True, False] if 'Binary' in ''.join(k.__name__ for k in cls.__mro__) or name == 'LogLoss' else [0, 1, 2]
        ok = True
        before = repr(metric.get())
        for _ in range(12):
            if loss._dict_input_metric:
                y = rng.choice(['a', 'b'])
                pa = rng.random()
                pred = {'a': pa, 'b': 1 - pa}
            elif metric.__class__.__mro__[1].__name__ in ('MeanMetric', 'MSE', 'RMSE') and name != 'LogLoss':
                y, pred = rng.uniform(0.5, 3), {'output': rng.uniform(0.5, 3)}
            elif name in ('LogLoss', 'ROCAUC', 'RollingROCAUC', 'RollingPRAUC'):
                y, pred = rng.choice([True, False]), {'output': rng.random()}
            else:
                y, pred = rng.choice(labels), {'output': rng.choice(labels)}
            v = loss(y, pred)
            f2 = cls()
            arg = pred if loss._dict_input_metric else pred['output']
            f2.update(y_true=y, y_pred=arg)
            exp = f2.get() * (-1 if metric.bigger_is_better else 1)
            ok = ok and (v == exp or abs(v - exp) < 1e-12) and repr(metric.get()) == before
        env.claim('pure_and_signed_on_real_class', ok, detail=name)
        n_ok += ok
    # NumPy-typed predictions beyond 2^53 must reach the metric unchanged (no rounding through binary64)
    import numpy as np
    big = 2 ** 53 + 1
    for name, y, p in (('MAE', np.int64(big), np.int64(big + 1)), ('MSE', np.int64(big), np.int64(big + 1)),
                       ('Accuracy', np.int64(big), np.int64(big)), ('Accuracy', np.int64(big), np.int64(big + 1))):
        metric = getattr(rm, name)()
        loss = validate_loss_function(metric)
        v = loss(y, {'output': p})
        f2 = getattr(rm, name)()
        f2.update(y_true=y, y_pred=p)
        exp = f2.get() * (-1 if metric.bigger_is_better else 1)
        env.claim('typed_extreme_values_reach_the_metric_unchanged', v == exp, detail=f"{name}: loss {v} vs fresh metric {exp} for 64-bit integers above 2^53")
    env.notes['accepted_metric_classes'] = names
    env.claim('accepted_classes_found', len(names) >= 30)


META['explanation'] += ' The abstract metric may also reject a pair (update raises, state unchanged): the error propagates and later calls are unaffected; one prediction dict mutated in place between calls.'

META['explanation'] += ' The validator is exercised through the public package-level entry point and the module-level one; two metric objects of one class get separate losses.'
