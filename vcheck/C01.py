"""C01 - incremental SAGE efficiency: sum of importance values == explained loss after every explain_one.

Inductive step from an arbitrary symbolic tracker state (any stream length), base case from a fresh explainer.
"""
from symx import And, Or, Not, Implies, eq
from symx.stubs import patched
from .common import guarded, total
from .expl import build_incremental

from ixai.explainer import IncrementalSage

ID = 'C01'

META = {
    'level': 'other',
    'explanation': 'Inductive step: real IncrementalSage.explain_one executed from a fully symbolic tracker state under the '
                   'lock-step invariant (shared update count / alpha, sum importance = marginal - model), with symbolic x, y, '
                   'stored rows, alpha, uninterpreted model and loss; every feature order and every background-row draw is a '
                   'fork. Base: fresh explainer, first T calls. Sizes d, q, m enumerated within bounds; stream length unbounded '
                   'by induction.',
    'bounds': {
        'quick': {'d': '1..3', 'q': '1..2', 'm': '1..2', 'labels': '1..2', 'modes': 'static,dynamic',
                  'imputers': 'joint,product,default', 'storages': 'batch,interval,sequence,uniform,geometric',
                  'names': 'str,int,float', 'base_case_calls': 3},
        'thorough': {'d': '1..4', 'q': '1..3', 'm': '1..3', 'labels': '1..2', 'base_case_calls': 4},
    },
    'outside': ['floating-point rounding (the "to within rounding" half of the statement)', 'd, q, m beyond the bounds',
                'tree storage / tree imputer (river learners)', 'the induction principle itself is a meta-argument'],
    'assumptions': ['model and loss are deterministic functions (uninterpreted functions)',
                    'random.randrange / np.random.permutation return some value of the requested range (all explored)',
                    'python floats are exact reals',
                    'invariant: all trackers share N (static) / alpha (dynamic); variances >= 0; '
                    'sum_f importance_f = marginal_tracker - model_tracker'],
}

QUERY_TIMEOUT_MS = {'quick': 60000, 'thorough': 300000}


def _cost(c):
    import math
    d, q, m = c['d'], c.get('q', 1), c.get('m', 1)
    draws = d * q if c.get('imputer', 'joint') == 'joint' else (q * d * (d - 1)) // 2
    if c.get('imputer') == 'default':
        draws = 0
    return math.factorial(d) * (m ** draws) * (4 if c.get('group') == 'base' else 1)


def configs(tier):
    cfgs = []

    def add(**k):
        k.setdefault('group', 'step')
        k.setdefault('_cost', _cost(k))
        if k not in cfgs:
            cfgs.append(k)
    # main sweep: sizes x mode x imputer
    dmax, qmax, mmax = (3, 2, 2) if tier == 'quick' else (4, 3, 3)
    for mode in ('static', 'dynamic'):
        for imp in ('joint', 'product', 'default'):
            for d in range(1, dmax + 1):
                for q in range(1, qmax + 1):
                    for m in range(1, mmax + 1):
                        if imp == 'default' and m > 1:
                            continue
                        c = dict(d=d, q=q, m=m, mode=mode, imputer=imp, storage='batch')
                        if _cost(c) > (400 if tier == 'quick' else 40000):
                            continue
                        add(**c)
    # storage kinds (each with update_storage on, so the storage's own update runs symbolically too)
    for st in ('interval', 'sequence', 'uniform', 'geometric'):
        for mode in ('static', 'dynamic'):
            add(d=2, q=1, m=1 if st == 'sequence' else 2, mode=mode, imputer='joint', storage=st)
    # feature-name types, multi-label outputs, loss direction, no storage update, per-call n_inner override
    for nm in ('int', 'float'):
        add(d=2, q=1, m=2, mode='static', imputer='joint', storage='batch', names=nm)
        add(d=3, q=1, m=1, mode='dynamic', imputer='joint', storage='batch', names=nm)
    for mode in ('static', 'dynamic'):
        add(d=2, q=2, m=2, mode=mode, imputer='joint', storage='batch', labels=2)
        add(d=2, q=2, m=2, mode=mode, imputer='joint', storage='batch', labels=4, _cost=300)
        add(d=2, q=1, m=2, mode=mode, imputer='joint', storage='batch', labels=5, _cost=100)
        add(d=2, q=1, m=2, mode=mode, imputer='joint', storage='batch', bigger=True)
        for imp in ('joint', 'product'):
            add(d=2, q=1, m=2, mode=mode, imputer=imp, storage='batch', context_key=True)
            add(d=2, q=1, m=2, mode=mode, imputer=imp, storage='batch', row_only_key=True)
            add(d=2, q=1, m=2, mode=mode, imputer=imp, storage='batch', positional=True)
        add(d=2, q=3, m=1, mode=mode, imputer='default', storage='batch')
        add(d=2, q=2, m=1, mode=mode, imputer='joint', storage='batch', memoise=True)
        add(d=2, q=3, m=2, mode=mode, imputer='joint', storage='batch', memoise=True, _cost=500)
        add(d=2, q=1, m=2, mode=mode, imputer='joint', storage='batch', labels=2, swap_labels=True)
        for metric in ('MAE', 'MSE'):
            add(d=2, q=2, m=2, mode=mode, imputer='joint', storage='batch', loss='river:' + metric)
        add(d=2, q=2, m=2, mode=mode, imputer='joint', storage='batch', loss_type='int')
        add(d=2, q=2, m=2, mode=mode, imputer='joint', storage='batch', loss_type='np')
        add(d=2, q=2, m=2, mode=mode, imputer='joint', storage='batch', labels=2, varlabels=True, _cost=4000)
        add(d=2, q=1, m=2, mode=mode, imputer='joint', storage='batch', upd=False)
        add(d=2, q=1, m=2, mode=mode, imputer='product', storage='batch', q_call=2)
    # base case: fresh explainer, T explicit calls
    T = 3 if tier == 'quick' else 4
    for mode in ('static', 'dynamic'):
        add(group='base', d=2, q=1, m=0, T=T, mode=mode, imputer='joint', storage='batch')
        add(group='base', d=2, q=1, m=0, T=3, mode=mode, imputer='joint', storage='geometric', cap=2)
        add(group='base', d=1, q=2, m=0, T=T, mode=mode, imputer='product', storage='uniform', cap=2)
        add(group='base', d=2, q=1, m=0, T=3, mode=mode, imputer='joint', storage='batch', labels=2)
        add(group='base', d=2, q=1, m=2, T=3, mode=mode, imputer='joint', storage='batch')
        add(group='base', d=2, q=1, m=1, T=3, mode=mode, imputer='default', storage='interval', cap=2, storage_fault=True, _cost=100)
        add(group='base', d=2, q=2, m=0, T=6 if tier == 'quick' else 7, mode=mode, imputer='default', storage='geometric', cap=2,
            alpha_value='1/4', _cost=200)
    return cfgs


def _efficiency(env, ex, tag=''):
    vals = guarded(env, 'importance_values', lambda: ex.importance_values)
    expl = guarded(env, 'explained_loss', lambda: ex.explained_loss)
    s = total(list(vals.values())) if vals else 0
    env.claim(f"efficiency{tag}", eq(s, expl))
    env.claim(f"explained_is_marginal_minus_model{tag}", eq(expl, ex.marginal_loss - ex.model_loss))
    return s, expl


def scenario(env, cfg):
    with patched(env):
        if cfg['group'] == 'base':
            return _base(env, cfg)
        return _step(env, cfg)


def _step(env, cfg):
    b = build_incremental(env, IncrementalSage, cfg)
    ex, pre = b['ex'], b['pre']
    if cfg.get('swap_labels'):
        _swap_label(env, ex, pre)
    kw = {}
    if 'q_call' in cfg:
        kw['n_inner_samples'] = cfg['q_call']
    if cfg.get('upd') is False:
        kw['update_storage'] = False
    ret = guarded(env, 'explain_one', ex.explain_one, b['x'], b['y'], **kw)
    s, expl = _efficiency(env, ex)
    env.claim('model_outputs_not_modified_by_the_library', b['model'].outputs_intact())
    # the invariant is re-established: every tracker advanced by exactly one update
    N1 = pre['N'] + 1
    counts = [ex._marginal_loss_tracker.N, ex._model_loss_tracker.N, ex._importance_trackers.N,
              ex._variance_trackers.N, ex._marginal_prediction_tracker.N]
    counts += [t.N for t in ex._importance_trackers.tracked_value.values()]
    counts += [t.N for t in ex._variance_trackers.tracked_value.values()]
    env.claim('lockstep_counts', And(*[eq(c, N1) for c in counts]))
    if b['dynamic']:
        alphas = [ex._marginal_loss_tracker.alpha, ex._model_loss_tracker.alpha]
        alphas += [t.alpha for t in ex._importance_trackers.tracked_value.values()]
        env.claim('shared_alpha', And(*[eq(a, b['alpha']) for a in alphas]))
    env.claim('returned_is_importance_values', And(*[eq(ret[f], ex.importance_values[f]) for f in b['names']]))
    env.canary('efficiency_off_by_one', eq(s, expl + 1))
    if env.mode == 'sym' and env.stats.vacuity_witnesses < 2:
        env.witness()


def _base(env, cfg):
    cfg = dict(cfg, state='fresh')
    plan = None
    if cfg.get('storage_fault'):
        from symx.stubs import FaultPlan, Boom
        plan = FaultPlan(env, name='storage_refuses_k')
    b = build_incremental(env, IncrementalSage, cfg, faults=plan)
    if plan is not None:
        b['model'].faults = b['loss'].faults = b['imputer'].faults = None      # only the storage may refuse an observation
    ex = b['ex']
    _efficiency(env, ex, tag='_fresh')
    from .common import sym_row
    for t in range(cfg['T']):
        x = sym_row(env, b['names'], f"x{t}")
        y = env.real(f"y{t}")
        if plan is not None:
            try:
                ex.explain_one(x, y)
            except Boom:
                pass            # the caller catches the error and goes on with the stream
            s, expl = _efficiency(env, ex, tag='_after_possible_storage_error')
            continue
        guarded(env, 'explain_one', ex.explain_one, x, y)
        s, expl = _efficiency(env, ex, tag=f"_t{t + 1}")
        env.claim(f"seen_t{t + 1}", eq(ex.seen_samples, t + 1))
        if t == 0:
            env.claim('first_call_only_seeds', And(len(b['model'].calls) == 0, len(b['loss'].calls) == 0,
                                                  eq(ex._importance_trackers.N, 0)))
    env.canary('efficiency_off_by_one', eq(s, expl + 1))


def _swap_label(env, ex, pre):
    """the marginal-prediction tracker knows labels {a, c}; the model emits {a, b}: one tracked label is absent from the
    update while a new one arrives (same number of keys)"""
    import copy
    mv = ex._marginal_prediction_tracker
    tr = mv.tracked_value.pop('b')
    mv._tracked_keys.discard('b')
    mv.tracked_value['c'] = tr
    mv._tracked_keys.add('c')
    pre['mpred']['c'] = pre['mpred'].pop('b')


META['explanation'] += ' Further groups: memoising model (same prediction object returned twice), input-dependent and swapped label sets, integer / NumPy typed losses, real river metrics (MAE, MSE) as loss, prefilled user storages, a storage that refuses an observation, long histories (6-8 calls) with the default-value imputer; model outputs must not be modified.'
