"""C07 - storages hold only observed data, within capacity, with targets aligned."""
from collections import deque

from symx import And, Or, Not, Implies, eq, same_term
from symx.stubs import patched
from .common import guarded, sym_row
from .expl import build_storage

from ixai.storage import (BatchStorage, IntervalStorage, SequenceStorage, UniformReservoirStorage,
                          GeometricReservoirStorage)

ID = 'C07'
NAMES = ['f0', 'f1']

META = {
    'level': 'other',
    'explanation': 'Inductive step: one real update() from an arbitrary storage state (any fill level j <= k, reservoir scalars '
                   'symbolic under their invariant, constant probability symbolic) with a fresh observation and every random outcome; '
                   'base / bounded model checking: from the constructor, every update sequence up to k+3 observations with all '
                   'draws. Observations are distinct objects with distinct symbolic payload, targets are fresh symbols, so '
                   '"is the target that arrived with this instance" is decided exactly.',
    'bounds': {'quick': {'capacity k': '1..4', 'fill level': '0..k', 'bmc_length': 'k+3 (k<=3)'},
               'thorough': {'capacity k': '1..8', 'fill level': '0..k', 'bmc_length': 'k+4 (k<=4)'}},
    'outside': ['capacities beyond the bound (the step is uniform in k only by enumeration)', 'TreeStorage (C19)',
                'random.random() returning exactly 0.0'],
    'assumptions': ['randrange returns a value of the requested range; random() a value in (0,1)',
                    'log/exp/floor of the Algorithm-L state are uninterpreted with sign axioms (only their sign matters here)',
                    'reservoir invariant: stored_samples >= size once full; next-accept index > stored_samples; 0 < W < 1'],
}

KINDS = ['batch', 'interval', 'sequence', 'uniform', 'geometric']


def configs(tier):
    cfgs = []
    kmax = 4 if tier == 'quick' else 8
    for kind in KINDS:
        for tg in (True, False):
            for k in range(1, kmax + 1):
                if kind == 'sequence' and k > 1:
                    continue
                for j in range(0, k + 1):
                    cfgs.append(dict(group='step', kind=kind, k=k, j=j, targets=tg))
            bk = 3 if tier == 'quick' else 4
            for k in range(1, bk + 1):
                if kind == 'sequence' and k > 1:
                    continue
                extra = 3 if tier == 'quick' else 4
                if kind in ('uniform', 'geometric') and k >= 3:
                    extra -= 1
                cfgs.append(dict(group='bmc', kind=kind, k=k, n=k + extra, targets=tg,
                                 _cost=(2 * k) ** extra if kind in ('uniform', 'geometric') else 1))
    sizes = list(range(1, 70)) + [97, 98, 100, 103, 107, 127, 128, 129, 161, 187, 196, 197, 255, 256, 257, 300, 1000]
    if tier == 'thorough':
        sizes = list(range(1, 400)) + [511, 512, 513, 1000, 1023, 1024, 1025, 2000]
    for chunk in range(0, len(sizes), 12):
        cfgs.append(dict(group='size_sweep', sizes=sizes[chunk:chunk + 12], _cost=50))
    for kind in ('interval', 'geometric', 'uniform'):
        cfgs.append(dict(group='bmc', kind=kind, k=2, n=4, targets=True, np_int=True, _cost=50))
    for kind in KINDS:
        # the stream hands over the SAME dict object several times, and one observation has no label (y=None)
        cfgs.append(dict(group='repeated_objects', kind=kind, k=1 if kind == 'sequence' else 2, _cost=100))
    for kind in ('interval', 'geometric'):
        for new_size in (1, 2, 4):
            cfgs.append(dict(group='resized', kind=kind, k=3, new_size=new_size, targets=True, _cost=100))
    cfgs.append(dict(group='bmc', kind='geometric', k=2, n=5, targets=True, p='sym', _cost=100))
    cfgs.append(dict(group='bmc', kind='geometric', k=2, n=5, targets=True, p='one', _cost=100))
    return cfgs


def scenario(env, cfg):
    with patched(env):
        return globals()['_' + cfg['group']](env, cfg)


def _content(st):
    xs, ys = st.get_data()
    return list(xs), list(ys)


def _check_state(env, st, arrived, cfg, tag, expect_len):
    """arrived: list of (x_obj, y_sym) in arrival order"""
    xs, ys = _content(st)
    env.claim(f"len{tag}", len(st) == expect_len and len(xs) == expect_len)
    idx = []
    ok = True
    for x in xs:
        hits = [i for i, (a, _y) in enumerate(arrived) if a is x]
        if len(hits) != 1:
            ok = False
            break
        idx.append(hits[0])
    env.claim(f"stored_are_observed{tag}", ok)
    if not ok:
        return None
    env.claim(f"each_arrival_at_most_once{tag}", len(set(idx)) == len(idx))
    if cfg['targets']:
        env.claim(f"targets_aligned{tag}", len(ys) == len(xs) and all(same_term(ys[i], arrived[idx[i]][1]) for i in range(len(xs))))
    else:
        env.claim(f"no_targets_kept{tag}", len(ys) == 0)
    return idx


def _step(env, cfg):
    kind, k, j = cfg['kind'], cfg['k'], cfg['j']
    st, rows, ys = build_storage(env, kind, NAMES, j, store_targets=cfg['targets'], cap=k, stem='old')
    if kind == 'geometric':
        p = env.real('p')
        env.assume(And(p >= 0, p <= 1))
        st.constant_probability = p
    arrived = list(zip(rows, ys))
    x_new, y_new = sym_row(env, NAMES, 'new'), env.real('new_y')
    before_x, _ = _content(st)
    guarded(env, 'update', st.update, x_new, y_new)
    arrived.append((x_new, y_new))
    cap = None if kind == 'batch' else (1 if kind == 'sequence' else k)
    expect = j + 1 if cap is None else min(j + 1, cap)
    idx = _check_state(env, st, arrived, cfg, '', expect)
    if idx is None:
        return
    xs, _ = _content(st)
    if kind == 'batch':
        env.claim('batch_appends_in_arrival_order', idx == list(range(j + 1)))
    elif kind in ('interval', 'sequence'):
        env.claim('window_is_last_k_in_arrival_order', idx == list(range(j + 1))[-cap:])
    else:
        if j < k:
            env.claim('fill_phase_appends', idx == list(range(j + 1)))
        else:
            changed = [i for i in range(k) if xs[i] is not before_x[i]]
            env.claim('at_most_one_slot_replaced_by_the_new_item', len(changed) <= 1 and all(xs[i] is x_new for i in changed))
    env.canary('length_not_always_grows', len(st) == j + 1 if (cap is not None and j >= cap) else False) if cap is not None and j >= cap \
        else env.canary('len_shifted', len(st) == j + 2)


def _bmc(env, cfg):
    kind, k, n = cfg['kind'], cfg['k'], cfg['n']
    if cfg.get('np_int'):
        import numpy as np
        k = np.int64(k)          # a capacity that is an integer but not a Python int
    tg = cfg['targets']
    if kind == 'batch':
        st = BatchStorage(store_targets=tg)
    elif kind == 'interval':
        st = IntervalStorage(size=k, store_targets=tg)
    elif kind == 'sequence':
        st = SequenceStorage(store_targets=tg)
    elif kind == 'uniform':
        st = guarded(env, 'ctor', UniformReservoirStorage, size=k, store_targets=tg)
    else:
        if cfg.get('p') == 'sym':
            p = env.real('p')
            env.assume(And(p >= 0, p <= 1))
            st = GeometricReservoirStorage(size=k, store_targets=tg, constant_probability=p)
        elif cfg.get('p') == 'one':
            st = GeometricReservoirStorage(size=k, store_targets=tg, constant_probability=1.0)
        else:
            st = GeometricReservoirStorage(size=k, store_targets=tg)
    env.claim('fresh_is_empty', len(st) == 0)
    arrived = []
    cap = None if kind == 'batch' else (1 if kind == 'sequence' else k)
    for t in range(n):
        x, y = sym_row(env, NAMES, f"x{t}"), env.real(f"y{t}")
        guarded(env, 'update', st.update, x, y)
        arrived.append((x, y))
        expect = t + 1 if cap is None else min(t + 1, cap)
        idx = _check_state(env, st, arrived, cfg, f"_n{t + 1}", expect)
        if idx is None:
            return
        if kind == 'batch':
            env.claim(f"whole_stream_in_order_n{t + 1}", idx == list(range(t + 1)))
        elif kind in ('interval', 'sequence'):
            env.claim(f"last_k_in_order_n{t + 1}", idx == list(range(t + 1))[-cap:])
        elif cfg.get('p') == 'one':
            env.claim(f"p_one_always_stores_newest_n{t + 1}", t in idx)
    env.canary('len_shifted', len(st) == n + 1)


def _resized(env, cfg):
    """the public `size` attribute is changed on a storage that has been full (shrunk below / grown above what it holds), more
    observations arrive: whatever capacity the storage then honours, it still holds only observed rows, each at most once,
    and the i-th stored target belongs to the i-th stored instance (capacity itself is NOT claimed here)"""
    kind, k = cfg['kind'], cfg['k']
    if kind == 'interval':
        st = IntervalStorage(size=k, store_targets=True)
    else:
        p = env.real('p')
        env.assume(And(p >= 0, p <= 1))
        st = GeometricReservoirStorage(size=k, store_targets=True, constant_probability=p)
    arrived = []
    for t in range(k + 3):
        if t == k + 1:
            st.size = cfg['new_size']
        x, y = sym_row(env, NAMES, f"x{t}"), env.real(f"y{t}")
        guarded(env, 'update', st.update, x, y)
        arrived.append((x, y))
        xs, ys = _content(st)
        idx = _check_state(env, st, arrived, cfg, f"_n{t + 1}", len(xs))
        if idx is None:
            return
        if kind == 'interval':
            env.claim(f"newest_observation_stored_n{t + 1}", t in idx)
    env.canary('len_shifted', len(st) == k + 4)


def thorough_extra():
    """second engine (corroboration only): CrossHair on the real Interval / Batch / GeometricReservoir storages"""
    from .crosshair_run import run
    return run('ch_storages.py', per_condition_timeout=60)


def _size_sweep(env, cfg):
    """capacity-dependent behaviour at sizes far beyond the symbolic bounds: interval / sequence windows and a geometric
    reservoir that never (p = 0) resp. always (p = 1, slot 0 scripted) replaces - no random forks, so large sizes are cheap;
    payloads stay symbolic"""
    for k in cfg['sizes']:
        for kind in ('interval', 'geometric_p0', 'geometric_p1'):
            if kind == 'interval':
                st = IntervalStorage(size=k, store_targets=True)
            elif kind == 'geometric_p0':
                st = GeometricReservoirStorage(size=k, store_targets=True, constant_probability=0.0)
            else:
                st = GeometricReservoirStorage(size=k, store_targets=True, constant_probability=1.0)
            arrived = []
            n = k + 2
            for t in range(n):
                x, y = {'f0': env.real(f"s{k}_{kind}_{t}")}, t
                if kind == 'geometric_p1' and t >= k:
                    # always accepted; script the slot draw to 0 so that the sweep does not fork
                    import sys
                    mod = sys.modules['ixai.storage.geometric_reservoir_storage']
                    real_rr = mod.random.randrange
                    mod.random.randrange = lambda a, b=None, step=1: 0
                    try:
                        st.update(x, y)
                    finally:
                        mod.random.randrange = real_rr
                else:
                    st.update(x, y)
                arrived.append((x, y))
            xs, ys = list(st.get_data()[0]), list(st.get_data()[1])
            if kind == 'interval':
                exp = list(range(n))[-k:]
            elif kind == 'geometric_p0':
                exp = list(range(k))
            else:
                exp = [n - 1] + list(range(1, k)) if k >= 1 else []
            ok = len(st) == k and len(xs) == k and [next((i for i, a in enumerate(arrived) if a[0] is x_), -1) for x_ in xs] == exp \
                and ys == exp
            env.claim('capacity_respected_at_every_size', ok, detail=f"{kind} size {k}: len {len(st)}, stored arrivals "
                                                                    f"{[next((i for i, a in enumerate(arrived) if a[0] is x_), -1) for x_ in xs][:6]}...")


def _repeated_objects(env, cfg):
    """a stream is a multiset: the same dict OBJECT may arrive several times (a caller re-using one buffer for equal
    observations) and an observation may come without a label (y=None, the default of update).  Every arrival counts; the stored
    (instance, target) pairs are pairs that arrived together, each arrival at most once."""
    kind, k = cfg['kind'], cfg['k']
    if kind == 'batch':
        st = BatchStorage(store_targets=True)
    elif kind == 'interval':
        st = IntervalStorage(size=k, store_targets=True)
    elif kind == 'sequence':
        st = SequenceStorage(store_targets=True)
    elif kind == 'uniform':
        st = guarded(env, 'ctor', UniformReservoirStorage, size=k, store_targets=True)
    else:
        st = GeometricReservoirStorage(size=k, store_targets=True, constant_probability=1.0)
    a, b = sym_row(env, NAMES, 'a'), sym_row(env, NAMES, 'b')
    stream = [(a, env.real('y0')), (a, None), (b, env.real('y2')), (a, env.real('y3')), (a, env.real('y4'))]
    cap = None if kind == 'batch' else (1 if kind == 'sequence' else k)
    for t, (x, y) in enumerate(stream):
        if y is None:
            guarded(env, 'update', st.update, x)            # the documented default: no label
        else:
            guarded(env, 'update', st.update, x, y)
        xs, ys = _content(st)
        expect = t + 1 if cap is None else min(t + 1, cap)
        env.claim(f"every_arrival_counts_n{t + 1}", len(st) == expect and len(xs) == expect and len(ys) == expect,
                  detail=f"{kind}: {len(xs)} instances / {len(ys)} targets after {t + 1} arrivals")
        if len(xs) != expect or len(ys) != expect:
            return
        idx = []
        for sx, sy in zip(xs, ys):
            hits = [i for i in range(t + 1) if stream[i][0] is sx and (stream[i][1] is sy or same_term(stream[i][1], sy))]
            idx.append(hits[0] if len(hits) == 1 else None)
        env.claim(f"stored_pairs_arrived_together_n{t + 1}", all(i is not None for i in idx) and len(set(idx)) == len(idx),
                  detail=f"{kind}: stored pairs map to arrivals {idx}")
        if None in idx:
            return
        if kind == 'batch':
            env.claim(f"whole_stream_in_order_n{t + 1}", idx == list(range(t + 1)))
        elif kind in ('interval', 'sequence'):
            env.claim(f"last_k_in_order_n{t + 1}", idx == list(range(t + 1))[-cap:])
        elif kind == 'geometric':
            env.claim(f"p_one_always_stores_newest_n{t + 1}", t in idx)


META['explanation'] += ' repeated_objects: streams that hand over the same dict object several times and contain an unlabelled observation.'

META['explanation'] += ' resized: the public size attribute changed (shrunk / grown) on a storage that has been full, then more arrivals: observed rows only, each once, targets aligned (capacity not claimed).'
