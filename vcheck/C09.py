"""C09 - GeometricReservoirStorage follows its recency-weighted inclusion law."""
from fractions import Fraction
import itertools

import z3

from symx import And, Or, Not, Implies, eq, same_term, Sym
from symx.core import Failure, to_real
from symx.stubs import patched, RandomStub
from .common import guarded, sym_row
from .expl import build_storage

from ixai.storage import GeometricReservoirStorage

ID = 'C09'
NAMES = ['f0']

META = {
    'level': 'other',
    'explanation': 'Step: one real update() of a full reservoir with symbolic probability p in [0,1], fresh uniform draw u and every '
                   'slot draw: accepted iff u <= p (both directions proved from the path condition), uniform slot over exactly k '
                   'slots, only that slot changes. Law: bounded model checking from the empty reservoir; each path carries its exact '
                   'probability weight as a polynomial in p (branch u<=p contributes p or 1-p, slot 1/k); one nonlinear-real validity '
                   'query per (k, n, t): sum of weights of paths retaining arrival t == p(1-p/k)^(n-t) resp. (1-p/k)^(n-k), for ALL p.',
    'bounds': {'quick': {'k': '1..3', 'n': '<= k+3', 'p': 'symbolic in [0,1], default 1/k, 1'},
               'thorough': {'k': '1..5', 'n': '<= k+5 (k<=3), k+4 (k=4,5)', 'p': 'symbolic in [0,1], default 1/k, 1'}},
    'outside': ['stream lengths beyond the bound for the closed-form law (the one-step law is for any state)',
                'the measure-zero event u == p (so < versus <= is deliberately not distinguished)',
                'quality of the Mersenne Twister itself'],
    'assumptions': ['random.random() is uniform on (0,1) and independent of everything else: P(u <= c) = c',
                    'random.randrange(k) is uniform over the k requested values'],
}


def configs(tier):
    cfgs = []
    kmax = 3 if tier == 'quick' else 5
    for k in range(1, kmax + 1):
        for tg in (True, False):
            cfgs.append(dict(group='step', k=k, targets=tg))
        cfgs.append(dict(group='fill', k=k))
        for p in ('sym', 'default', 'one'):
            extra = 3 if tier == 'quick' else (5 if k <= 3 else 4)
            cfgs.append(dict(group='law', k=k, n=k + extra, p=p, _cost=(k + 1) ** extra))
    cfgs.append(dict(group='ctor', k=3))
    sizes = list(range(1, 70)) + [97, 98, 100, 103, 107, 127, 128, 129, 161, 187, 196, 197, 255, 256, 257, 300, 1000]
    if tier == 'thorough':
        sizes = list(range(1, 400)) + [511, 512, 513, 1000, 1023, 1024, 1025, 2000]
    for chunk in range(0, len(sizes), 12):
        cfgs.append(dict(group='size_sweep', sizes=sizes[chunk:chunk + 12], _cost=50))
    return cfgs


def finding_key(cfg, name):
    return f"{cfg['group']}/{name.split('[')[0]}"


def scenario(env, cfg):
    with patched(env) as ctx:
        return globals()['_' + cfg['group']](env, cfg, ctx)


def _ctor(env, cfg, ctx):
    for k in (1, 2, cfg['k'], 7):
        st = GeometricReservoirStorage(size=k)
        env.claim('default_probability_is_one_over_k', eq(st.constant_probability * k, 1))
        env.claim('default_stores_no_targets', st.store_targets is False)
    p = env.real('p')
    st = GeometricReservoirStorage(size=3, constant_probability=p)
    env.claim('configured_probability_kept', eq(st.constant_probability, p))
    st0 = GeometricReservoirStorage(size=3, constant_probability=0)
    env.claim('explicit_zero_probability_kept', eq(st0.constant_probability, 0))
    env.canary('not_one_over_k_plus_one', eq(GeometricReservoirStorage(size=3).constant_probability * 4, 1))


def _fill(env, cfg, ctx):
    k = cfg['k']
    p = env.real('p')
    env.assume(And(p >= 0, p <= 1))
    st = GeometricReservoirStorage(size=k, constant_probability=p, store_targets=True)
    items = []
    for t in range(k):
        x, y = sym_row(env, NAMES, f"x{t}"), env.real(f"y{t}")
        guarded(env, 'update', st.update, x, y)
        items.append((x, y))
    xs, ys = st.get_data()
    env.claim('fill_phase_is_deterministic', len(ctx.py_random.calls) == 0)
    env.claim('first_k_all_stored_in_order', len(xs) == k and all(a is b[0] for a, b in zip(xs, items))
              and all(same_term(a, b[1]) for a, b in zip(ys, items)))


def _step(env, cfg, ctx):
    k = cfg['k']
    st, rows, ys = build_storage(env, 'geometric', NAMES, k, store_targets=cfg['targets'], cap=k, stem='old')
    p = env.real('p')
    env.assume(And(p >= 0, p <= 1))
    st.constant_probability = p
    x_new, y_new = sym_row(env, NAMES, 'new'), env.real('new_y')
    guarded(env, 'update', st.update, x_new, y_new)
    calls = ctx.py_random.calls
    xs, ys_after = st.get_data()
    env.claim('capacity_kept', len(xs) == k)
    uniform_draws = [c for c in calls if c[0] == 'random']
    slot_draws = [c for c in calls if c[0] in ('randrange', 'randint')]
    env.claim('one_acceptance_draw', len(uniform_draws) == 1)
    if len(uniform_draws) != 1:
        return
    u = uniform_draws[0][2]
    changed = [i for i in range(k) if xs[i] is not rows[i]]
    if changed:
        env.claim('replaced_only_if_u_le_p', u <= p)
        env.claim('exactly_one_slot_replaced_by_new', len(changed) == 1 and xs[changed[0]] is x_new)
        env.claim('slot_drawn_uniformly_over_k', len(slot_draws) == 1 and
                  ((slot_draws[0][0] == 'randrange' and slot_draws[0][1] == (0, k)) or
                   (slot_draws[0][0] == 'randint' and slot_draws[0][1] == (0, k - 1))) and slot_draws[0][2] == changed[0])
        if cfg['targets']:
            env.claim('target_written_to_same_slot', all(same_term(ys_after[i], y_new if i == changed[0] else ys[i]) for i in range(k)))
    else:
        env.claim('kept_only_if_u_gt_p', u > p)
        env.claim('no_slot_draw_when_rejected', len(slot_draws) == 0)
        if cfg['targets']:
            env.claim('targets_unchanged', all(same_term(ys_after[i], ys[i]) for i in range(k)))
    if not cfg['targets']:
        env.claim('no_targets_kept', len(ys_after) == 0)
    env.canary('not_always_replaced', len(changed) == 1)
    env.canary('not_never_replaced', len(changed) == 0)


# ---- the inclusion law ------------------------------------------------------------------------

def _make(env, cfg):
    k = cfg['k']
    if cfg['p'] == 'sym':
        p = env.real('p')
        env.assume(And(p >= 0, p <= 1))
        return GeometricReservoirStorage(size=k, constant_probability=p), p
    if cfg['p'] == 'one':
        return GeometricReservoirStorage(size=k, constant_probability=1.0), 1
    st = GeometricReservoirStorage(size=k)
    return st, Fraction(st.constant_probability)      # the float the constructor actually computed (1/k rounded)


def _law(env, cfg, ctx):
    if env.mode == 'conc':
        return _law_concrete(env, cfg)
    k, n = cfg['k'], cfg['n']
    st, p = _make(env, cfg)
    items = []
    snapshots = {}
    for t in range(1, n + 1):
        x = sym_row(env, NAMES, f"x{t}")
        guarded(env, 'update', st.update, x, None)
        items.append(x)
        if t >= k:
            xs = st.get_data()[0]
            snapshots[t] = frozenset(i + 1 for i, it in enumerate(items) if any(it is s for s in xs))
    w, terms = env.path_weight()
    env.claim('reservoir_full', len(st) == k)
    return {'snapshots': snapshots, 'weight': w, 'terms': terms, 'p': p}


def _expected(k, n, t, p):
    """closed form of the property statement (p: z3 term or Fraction)"""
    base = 1 - p / k
    e = n - t if t > k else n - k
    r = p if t > k else 1
    for _ in range(e):
        r = r * base
    return r


def post_explore(env, cfg, results):
    if cfg['group'] != 'law':
        return
    k, n = cfg['k'], cfg['n']
    results = [r for r in results if r]
    psym = z3.Real('p')
    assumptions = [psym >= 0, psym <= 1]
    total = None
    for r in results:
        w = z3.RealVal(r['weight'])
        for t_ in r['terms']:
            w = w * t_
        r['w'] = w
        total = w if total is None else total + w
    ok, model = env.global_claim(f"weights_sum_to_one[k={k},n={n}]", total == 1, assumptions)
    if ok is False:
        env.failures.append(Failure('weights_sum_to_one', [], model, 'sum of path weights == 1'))
    p = psym if cfg['p'] == 'sym' else z3.RealVal(Fraction(results[0]['p']))
    for m in range(k, n + 1):
        for t in range(1, m + 1):
            lhs = z3.RealVal(0)
            for r in results:
                if t in r['snapshots'][m]:
                    lhs = lhs + r['w']
            rhs = _expected(k, m, t, p)
            name = f"inclusion_law[k={k},n={m},t={t}]"
            ok, model = env.global_claim(name, lhs == rhs, assumptions)
            if ok is False:
                env.failures.append(Failure(name, [], model, f"P(arrival {t} retained after {m}) == {'p' if t > k else '1'}(1-p/k)^{m - max(t, k)}"))
    if cfg['p'] != 'sym':
        return
    # oracle sharpness: a wrong law must be refuted
    lhs = z3.RealVal(0)
    for r in results:
        if 1 in r['snapshots'][n]:
            lhs = lhs + r['w']
    s = z3.Solver()
    s.add(*assumptions)
    s.add(lhs != _expected(k, n, 1, p) * (1 - p / (k + 1)))
    env.stats.canaries += 1
    good = s.check() == z3.sat
    env.stats.canaries_refuted += int(good)
    env.canary_seen['wrong_law_refuted'] = good


class _Scripted:
    """concrete RNG for the exact enumeration: region representatives for random(), all slots for randrange"""

    def __init__(self, us, slots):
        self.us, self.slots = list(us), list(slots)
        self.requested = []

    def random(self):
        return self.us.pop(0)

    def randrange(self, a, b=None):
        if b is None:
            a, b = 0, a
        self.requested.append((a, b))
        s = self.slots.pop(0)
        if not (0 <= s < b - a):
            raise IndexError('scripted slot outside the requested range')
        return a + s

    def randint(self, a, b):
        return self.randrange(a, b + 1)


def _law_concrete(env, cfg):
    """exact replay: enumerate every (region of u, slot) sequence against the real class with Fraction weights"""
    import sys
    k, n = cfg['k'], cfg['n']
    pv = env.real('p') if cfg['p'] == 'sym' else (Fraction(1) if cfg['p'] == 'one' else Fraction(1.0 / k))
    pv = Fraction(pv)
    regions = []
    if pv > 0:
        regions.append((pv / 2, pv))              # u in (0, p)
    if pv < 1:
        regions.append(((1 + pv) / 2, 1 - pv))    # u in (p, 1)
    mod = sys.modules['ixai.storage.geometric_reservoir_storage']
    steps = n - k
    prob = {t: Fraction(0) for t in range(1, n + 1)}
    total = Fraction(0)
    for choice in itertools.product(range(len(regions)), repeat=steps):
        for slots in itertools.product(range(k), repeat=steps):
            us = [float(regions[c][0]) for c in choice]
            rng = _Scripted(us, slots)
            saved = mod.random
            mod.random = rng
            try:
                st = (GeometricReservoirStorage(size=k, constant_probability=float(pv)) if cfg['p'] != 'default'
                      else GeometricReservoirStorage(size=k))
                items = []
                for t in range(1, n + 1):
                    x = {'f0': t}
                    st.update(x, None)
                    items.append(x)
            except IndexError:
                continue
            finally:
                mod.random = saved
            w = Fraction(1)
            used = steps - len(rng.us)
            for c in choice[:used]:
                w *= regions[c][1]
            n_slots = steps - len(rng.slots)
            w *= Fraction(1, k) ** n_slots
            # sequences that differ only in unused slot draws are the same execution: count once
            if any(s != 0 for s in slots[n_slots:]) or any(c != 0 for c in choice[used:]):
                continue
            total += w
            xs = st.get_data()[0]
            for t, it in enumerate(items, start=1):
                if any(it is s for s in xs):
                    prob[t] += w
    env.claim('weights_sum_to_one', total == 1, detail=f"total weight {total}")
    for t in range(1, n + 1):
        exp = _expected(k, n, t, pv)
        env.claim(f"inclusion_law[k={k},n={n},t={t}]", prob[t] == exp,
                  detail=f"p={pv}: P(arrival {t} retained after {n}) = {prob[t]} but the law gives {exp}")


def _size_sweep(env, cfg, ctx):
    """'once full' means after exactly k observations, for every size: with p = 0 nothing enters afterwards, with p = 1
    every arrival enters (slot draw scripted to 0, so no forks)"""
    from . import C07
    sub_cfg = dict(cfg)
    return C07._size_sweep(env, sub_cfg)
