"""Regenerates /verif/MANIFEST.json from the harness modules' META (single source of truth)."""
import importlib
import json
import os
import sys

VERIF = os.path.dirname(os.path.dirname(os.path.abspath(__file__)))
sys.path.insert(0, VERIF)
from symx import notorch  # noqa
notorch.install()

ALL = [f"C{i:02d}" for i in range(1, 21)]
NOT_APPLICABLE = {}   # property id -> reason (filled only for properties the technique cannot decide)
TECH = ('solver-based checking of the real code: symbolic execution of /repo\'s shipped Python on z3-backed proxy values '
        '(symx), obligations decided by z3 (validity of pc => claim), counterexamples replayed concretely')


def main():
    checks, na = [], []
    for pid in ALL:
        path = os.path.join(VERIF, 'vcheck', f"{pid}.py")
        if not os.path.exists(path):
            na.append({'property_id': pid, 'reason': NOT_APPLICABLE.get(pid, 'harness not built yet in this revision of /verif')})
            continue
        mod = importlib.import_module(f"vcheck.{pid}")
        m = mod.META
        checks.append({
            'property_id': pid,
            'quick_cmd': f"./check {pid} --tier quick",
            'thorough_cmd': f"./check {pid} --tier thorough",
            'evidence_file': f"/verif/evidence/{pid}.json",
            'replay_cmd_template': f"./check {pid} --replay {{path}}",
            'engine': 'symx',
            'level_claimed': {'category': m['level'], 'text': m.get('claim_text', m['explanation']),
                              'design_ref': m.get('design_ref', f"DESIGN.md section 3 / {pid}")},
            'level_note': m.get('level_note', '; '.join(m.get('assumptions', []))),
            'technique': m.get('technique', TECH),
        })
    man = {
        'version': 1,
        'setup_cmd': './setup.sh',
        'hooks': {'guard': 'IXAI_VERIF', 'enable': 'no source hooks are needed: the harness patches module globals at run time',
                  'baseline_off_cmd': 'cd /repo && /venv/bin/python -m pytest -ra -q -p no:cacheprovider --timeout=900 '
                                      '--continue-on-collection-errors',
                  'source_commits': [], 'add_only': True},
        'engines': [{'name': 'symx', 'path': '/verif/symx', 'serves_properties': [c['property_id'] for c in checks],
                     'kind_free_text': 'proxy-value symbolic execution of the real Python code with z3 (path forking by '
                                       're-execution, uninterpreted model/loss, symbolic RNG with exact path weights)'}],
        'checks': checks,
        'notes': 'exit 0 = all obligations discharged within the stated bounds; exit 1 = counterexample reproduced concretely; '
                 'exit 2 = harness error / inconclusive (never reported as success). See DESIGN.md.',
        'not_applicable': na,
    }
    with open(os.path.join(VERIF, 'MANIFEST.json'), 'w') as fh:
        json.dump(man, fh, indent=1)
    print(f"MANIFEST: {len(checks)} checks, {len(na)} not claimed")


if __name__ == '__main__':
    main()
