"""C06 - imputers replace exactly the requested features with genuine background values."""
import itertools

from symx import And, Or, Not, Implies, eq, same_term
from symx.stubs import patched, UFModel
from .common import guarded, sym_row, names_for
from .expl import build_storage, LABELSETS

from ixai.imputer import MarginalImputer, DefaultImputer

ID = 'C06'

META = {
    'level': 'other',
    'explanation': 'Real MarginalImputer.impute (joint and product) / DefaultImputer.impute with the instance, all stored rows and '
                   'the defaults being distinct fresh symbols, so "this model input value IS that stored value" is decided exactly; '
                   'every feature subset (as list, tuple, set, frozenset, generator-free iterables), every storage kind, every '
                   'outcome of the row draws; the model is an uninterpreted function that logs its inputs.',
    'bounds': {'quick': {'d': '1..3', 'q': '1..3', 'm': '1..3', 'subsets': 'all 2^d', 'forms': 'list,tuple,set,frozenset'},
               'thorough': {'d': '1..4', 'q': '1..3', 'm': '1..4', 'subsets': 'all 2^d'}},
    'outside': ['TreeImputer (C19)', 'storages holding rows with missing features', 'sizes beyond the bounds'],
    'assumptions': ['randrange returns some index of the requested range (all explored); the requested range is logged and '
                    'must be the whole storage', 'model deterministic (uninterpreted)'],
}


def configs(tier):
    cfgs = []
    dmax, qmax, mmax, cap = (3, 3, 3, 25000) if tier == 'quick' else (4, 3, 4, 250000)

    def n_paths(strat, d, q, m):
        # sum over all subsets (by size s) and the 4 container forms of the number of draw outcomes
        import math
        return 5 * sum(math.comb(d, s) * m ** (q * (1 if strat == 'joint' else s)) for s in range(d + 1))
    for strat in ('joint', 'product'):
        for d in range(1, dmax + 1):
            for q in range(1, qmax + 1):
                for m in range(1, mmax + 1):
                    total = n_paths(strat, d, q, m)
                    if total > cap:
                        continue
                    cfgs.append(dict(group='marginal', strat=strat, d=d, q=q, m=m, storage='batch', _cost=total))
        for st in ('interval', 'sequence', 'uniform', 'geometric'):
            cfgs.append(dict(group='marginal', strat=strat, d=2, q=2, m=1 if st == 'sequence' else 2, storage=st, _cost=64))
        for nm in ('int', 'float', 'mixed'):
            cfgs.append(dict(group='marginal', strat=strat, d=3, q=1, m=2, storage='batch', names=nm, _cost=64))
        cfgs.append(dict(group='marginal', strat=strat, d=2, q=2, m=2, storage='batch', labels=2, _cost=64))
        cfgs.append(dict(group='marginal', strat=strat, d=2, q=1, m=2, storage='batch', row_only_key=True, _cost=64))
        cfgs.append(dict(group='marginal', strat=strat, d=3, q=1, m=2, storage='batch', positional=True, _cost=64))
    # histories: the same imputer object used across storage updates (fill phase, at capacity, after eviction)
    for strat in ('joint', 'product'):
        for st in ('batch', 'interval', 'sequence', 'uniform', 'geometric'):
            for m, cap in ((1, 1), (1, 2), (2, 2)) if st != 'sequence' else ((1, 1),):
                if st == 'batch' and cap != m:
                    continue
                cfgs.append(dict(group='history', strat=strat, storage=st, m=m, cap=cap, d=2, q=1,
                                 steps='iuiuui' if tier == 'quick' else 'iuiuuiui', _cost=3000))
        # histories in which the requested subset changes from call to call (each impute picks any subset)
        cfgs.append(dict(group='history', strat=strat, storage='batch', m=2, cap=2, d=2, q=1, steps='iii', subsets='any', _cost=4000))
        cfgs.append(dict(group='history', strat=strat, storage='interval', m=2, cap=2, d=2, q=1, steps='iuii', subsets='any', _cost=4000))
        if tier == 'thorough':
            cfgs.append(dict(group='history', strat=strat, storage='batch', m=2, cap=2, d=3, q=1, steps='iii', subsets='any', _cost=40000))
    for strat in ('joint', 'product'):
        cfgs.append(dict(group='marginal', strat=strat, d=1, q=1, m=300 if tier == 'quick' else 1100, storage='batch', _cost=3000))
        cfgs.append(dict(group='marginal', strat=strat, d=1, q=1, m=257, storage='interval', _cost=3000))
    for d in range(1, dmax + 1):
        for q in range(1, qmax + 1):
            cfgs.append(dict(group='default', d=d, q=q))
    cfgs.append(dict(group='default', d=2, q=2, labels=2))
    cfgs.append(dict(group='default', d=2, q=1, sparse=True))      # the instance does not carry a feature that is to be replaced
    cfgs.append(dict(group='default', d=3, q=2, sparse=True))
    for strat in ('joint', 'product'):
        for st in ('batch', 'interval', 'sequence', 'uniform', 'geometric'):
            cfgs.append(dict(group='empty_storage', strat=strat, storage=st, d=2, q=2))
    return cfgs


def scenario(env, cfg):
    with patched(env) as ctx:
        return globals()['_' + cfg['group']](env, cfg, ctx)


FORMS = {'list': list, 'tuple': tuple, 'set': set, 'frozenset': frozenset, 'keys_view': lambda s: dict.fromkeys(s).keys()}


def _subsets_forms(env, names):
    """pick a subset and the container type it is passed in (forks)"""
    d = len(names)
    mask = env.choose(2 ** d, label='subset')
    S = [f for i, f in enumerate(names) if mask >> i & 1]
    form = list(FORMS)[env.choose(len(FORMS), label='form')]
    return S, form, FORMS[form](S)


def _marginal(env, cfg, ctx):
    names = names_for(cfg.get('names', 'str'), cfg['d'])
    labels = LABELSETS[cfg.get('labels', 1)]
    model = UFModel(env, names, labels=labels, positional=cfg.get('positional', False))
    storage, rows, ys = build_storage(env, cfg['storage'], names, cfg['m'], store_targets=True)
    if cfg.get('row_only_key'):
        for r_i, r in enumerate(rows):
            r['w'] = env.real(f"row{r_i}_w")      # stored observations carry a key the explained instance lacks
    imp = guarded(env, 'ctor', MarginalImputer, model, cfg['strat'], storage)
    x = sym_row(env, names, 'x')
    x_copy = dict(x)
    S, form, S_obj = _subsets_forms(env, names)
    S_copy = list(S_obj)
    data_before = (list(storage.get_data()[0]), [dict(r) for r in storage.get_data()[0]], list(storage.get_data()[1]))
    q = cfg['q']
    n_draws0 = len(ctx.py_random.calls)
    preds = guarded(env, 'impute', imp.impute, S_obj, x, q)
    # ---- return value
    env.claim('returns_n_samples_predictions', isinstance(preds, list) and len(preds) == q)
    env.claim('one_model_evaluation_per_sample', len(model.calls) == q)
    if len(model.calls) != q or len(preds) != q:
        return
    for z, pr in zip(model.calls, preds):
        env.claim('prediction_is_model_output_of_its_input',
                  set(pr.keys()) == set(labels) and And(*[eq(pr[lab], model.value(z, lab)) for lab in labels]))
        env.claim('input_has_exactly_the_instance_features', set(z.keys()) == set(x.keys()),
                  detail=f"model input keys {list(z.keys())}, instance keys {list(x.keys())}")
        if cfg.get('positional'):
            # a model that reads the values by position (wrapper without feature names): replacing must happen in place
            z_exp = {f: (z[f] if f in S else x[f]) for f in x}
            env.claim('imputed_values_replace_in_place_for_positional_models',
                      And(*[eq(pr[lab], model.value(z_exp, lab)) for lab in labels]))
        for f in names:
            if f not in S:
                env.claim('features_outside_subset_keep_instance_value', same_term(z[f], x[f]))
        if cfg['strat'] == 'joint':
            rs = [r for r in range(len(rows)) if all(same_term(z[f], rows[r][f]) for f in S)]
            env.claim('joint_all_imputed_features_from_one_stored_row', len(rs) >= 1)
        else:
            for f in S:
                env.claim('product_each_imputed_feature_from_some_stored_row',
                          any(same_term(z[f], rows[r][f]) for r in range(len(rows))))
    if not S:
        env.claim('empty_subset_gives_unperturbed_prediction',
                  And(*[eq(pr[lab], model.value(x, lab)) for pr in preds for lab in labels]))
    # ---- draws cover the whole storage
    draws = ctx.py_random.calls[n_draws0:]
    env.claim('row_indices_requested_over_whole_storage',
              all(c[0] in ('randrange', 'randint') and (c[1] == (0, len(rows)) if c[0] == 'randrange' else c[1] == (0, len(rows) - 1))
                  for c in draws))
    expected_draws = q if cfg['strat'] == 'joint' else q * len(S)
    env.claim('number_of_row_draws', len(draws) == expected_draws,
              detail=f"{len(draws)} draws for |S|={len(S)}, q={q}")
    # ---- nothing modified
    env.claim('instance_unmodified', list(x.keys()) == list(x_copy.keys()) and all(same_term(x[k], x_copy[k]) for k in x_copy))
    env.claim('subset_unmodified', list(S_obj) == S_copy)
    xs_after, ys_after = storage.get_data()
    env.claim('storage_unmodified',
              len(xs_after) == len(data_before[0]) and all(a is b for a, b in zip(xs_after, data_before[0]))
              and all(list(a.keys()) == list(c.keys()) and all(same_term(a[k], c[k]) for k in c) for a, c in zip(xs_after, data_before[1]))
              and len(ys_after) == len(data_before[2]) and all(same_term(a, b) for a, b in zip(ys_after, data_before[2])))
    if S:
        env.canary('subset_not_left_untouched', all(same_term(model.calls[0][f], x[f]) for f in S))


def _default(env, cfg, ctx):
    names = names_for('str', cfg['d'])
    labels = LABELSETS[cfg.get('labels', 1)]
    model = UFModel(env, names, labels=labels)
    defaults = sym_row(env, names, 'dflt')
    defaults_copy = dict(defaults)
    imp = guarded(env, 'ctor', DefaultImputer, model, defaults)
    x = sym_row(env, names, 'x')
    S, form, S_obj = _subsets_forms(env, names)
    if cfg.get('sparse'):
        # a sparse instance dict: the last feature is absent and has to be replaced by its default
        if names[-1] not in S:
            return
        del x[names[-1]]
    x_copy = dict(x)
    S_copy = list(S_obj)
    q = cfg['q']
    preds = guarded(env, 'impute', imp.impute, S_obj, x, q)
    env.claim('returns_n_samples_predictions', isinstance(preds, list) and len(preds) == q)
    env.claim('model_evaluated', len(model.calls) >= 1)
    for z in model.calls:
        env.claim('model_input_carries_every_feature', all(f in z for f in names), detail=f"model input keys {list(z.keys())}")
        if not all(f in z for f in names):
            return
        for f in names:
            if f in S:
                env.claim('imputed_features_take_the_configured_default', same_term(z[f], defaults[f]))
            else:
                env.claim('features_outside_subset_keep_instance_value', same_term(z[f], x[f]))
    z0 = {f: (defaults[f] if f in S else x[f]) for f in names}
    for pr in preds:
        env.claim('prediction_is_model_output_of_the_imputed_input',
                  set(pr.keys()) == set(labels) and And(*[eq(pr[lab], model.value(z0, lab)) for lab in labels]))
    if not S:
        env.claim('empty_subset_gives_unperturbed_prediction',
                  And(*[eq(pr[lab], model.value(x, lab)) for pr in preds for lab in labels]))
    env.claim('instance_unmodified', list(x.keys()) == list(x_copy.keys()) and all(same_term(x[k], x_copy[k]) for k in x_copy))
    env.claim('subset_unmodified', list(S_obj) == S_copy)
    env.claim('defaults_unmodified', all(same_term(defaults[k], defaults_copy[k]) for k in defaults_copy))
    env.claim('no_random_draws', len(ctx.py_random.calls) == 0)
    if S and not cfg.get('sparse'):
        # the imputer is re-configured through its public attribute, the same subset (an equal list) is imputed again:
        # the model sees the CURRENT defaults (a per-subset memo of the replacement values would be stale)
        new_defaults = sym_row(env, names, 'dflt2')
        imp.values = new_defaults
        n0 = len(model.calls)
        guarded(env, 'impute_after_reconfiguration', imp.impute, list(S_copy), x, 1)
        for z in model.calls[n0:]:
            env.claim('reconfigured_defaults_are_used', all(f in z for f in names) and
                      all(same_term(z[f], new_defaults[f] if f in S else x[f]) for f in names if f in z))
    if S:
        env.canary('subset_not_left_untouched', all(f in x and same_term(model.calls[0][f], x[f]) for f in S))


def _history(env, cfg, ctx):
    """one imputer object, interleaved impute (i) / storage.update (u) steps; every impute is checked against the
    storage content AT THAT MOMENT (so a cached or stale view of the storage is caught)"""
    names = names_for('str', cfg['d'])
    model = UFModel(env, names)
    storage, rows, ys = build_storage(env, cfg['storage'], names, cfg['m'], store_targets=True, cap=cfg['cap'])
    if cfg['storage'] == 'geometric':
        storage.constant_probability = 1.0      # always insert: the interesting histories (eviction) on every path
    imp = guarded(env, 'ctor', MarginalImputer, model, cfg['strat'], storage)
    S = list(names)
    t = 0
    two = None
    if cfg.get('subsets') == 'any':
        two = MarginalImputer(model, cfg['strat'], storage)      # a second imputer object in the same process
    for step in cfg['steps']:
        t += 1
        if step == 'u':
            guarded(env, 'storage.update', storage.update, sym_row(env, names, f"new{t}"), env.real(f"new{t}_y"))
            continue
        x = sym_row(env, names, f"x{t}")
        now = list(storage.get_data()[0])
        n_calls, n_draws = len(model.calls), len(ctx.py_random.calls)
        if cfg.get('subsets') == 'any':
            mask = env.choose(2 ** len(names), label=('subset', t))
            S = [f for i, f in enumerate(names) if mask >> i & 1]
        which = imp if (two is None or t % 2) else two
        preds = guarded(env, 'impute', which.impute, list(S), x, cfg['q'])
        for z in model.calls[n_calls:]:
            for f in names:
                if f not in S:
                    env.claim('features_outside_subset_keep_instance_value', same_term(z[f], x[f]),
                              detail=f"step {t} of {cfg['steps']}, subset {S}")
        env.claim('returns_n_samples_predictions', len(preds) == cfg['q'])
        for z in model.calls[n_calls:]:
            if cfg['strat'] == 'joint':
                env.claim('joint_row_is_currently_stored', any(all(same_term(z[f], r[f]) for f in S) for r in now),
                          detail=f"step {t} of {cfg['steps']}")
            else:
                env.claim('product_values_are_currently_stored', all(any(same_term(z[f], r[f]) for r in now) for f in S),
                          detail=f"step {t} of {cfg['steps']}")
        draws = ctx.py_random.calls[n_draws:]
        env.claim('row_indices_requested_over_whole_current_storage',
                  all((c[0] == 'randrange' and c[1] == (0, len(now))) or (c[0] == 'randint' and c[1] == (0, len(now) - 1))
                      for c in draws if c[0] in ('randrange', 'randint')) and (len(draws) >= 1 or (cfg['strat'] != 'joint' and not S)),
                  detail=f"step {t}: storage holds {len(now)} rows, draws {[(c[0], c[1]) for c in draws]}")
        env.claim('storage_object_still_the_given_one', imp.storage_object is storage)


META['explanation'] += ' Histories on one imputer object with an arbitrary subset per call and a second imputer object in the same process.'


def _empty_storage(env, cfg, ctx):
    """imputing from a storage that holds nothing yet: whatever the imputer does (the pinned code refuses with an exception),
    it does not put anything into the storage and does not touch the instance"""
    names = names_for('str', cfg['d'])
    model = UFModel(env, names)
    storage, rows, ys = build_storage(env, cfg['storage'], names, 0, store_targets=True, cap=2)
    imp = guarded(env, 'ctor', MarginalImputer, model, cfg['strat'], storage)
    x = sym_row(env, names, 'x')
    x_copy = dict(x)
    S, form, S_obj = _subsets_forms(env, names)
    try:
        preds = imp.impute(S_obj, x, cfg['q'])
        env.claim('empty_storage:returns_n_samples_predictions_or_refuses', isinstance(preds, list) and len(preds) == cfg['q'],
                  detail=f"returned {preds!r}")
    except (ValueError, IndexError, KeyError):
        pass
    xs, ys_now = storage.get_data()
    env.claim('empty_storage_stays_empty', len(storage) == 0 and len(xs) == 0 and len(ys_now) == 0,
              detail=f"after impute the storage holds {len(xs)} instances / {len(ys_now)} targets")
    env.claim('instance_unmodified', list(x.keys()) == list(x_copy.keys()) and all(same_term(x[k], x_copy[k]) for k in x_copy))
    # the storage still works afterwards: the first real observation is stored alone, with its own target
    x1, y1 = sym_row(env, names, 'first'), env.real('first_y')
    guarded(env, 'update', storage.update, x1, y1)
    xs, ys_now = storage.get_data()
    env.claim('first_observation_stored_alone_with_its_target', len(xs) == 1 and xs[0] is x1 and len(ys_now) == 1 and same_term(ys_now[0], y1))

META['explanation'] += ' Further groups: sparse instance for the default imputer; imputing from an empty storage leaves it empty and usable; the model object carries decoy estimator methods that must not be called.'

META['explanation'] += ' default: after re-configuring the imputer (imp.values = new dict) the same subset is imputed with the current defaults.'
