"""C08 - UniformReservoirStorage is Algorithm L (Li 1994), whose output is a uniform k-subset.

The solver decides *refinement to Algorithm L* (log / exp uninterpreted with sign axioms, floor exact); uniformity of
Algorithm L itself is the published theorem.  A refuted refinement is replayed concretely: (a) a grid of float states
shows the diverging state, (b) a Monte-Carlo run of the real class (k=1, n=3 and k=2, n=4) must show non-uniform
inclusion frequencies at 6 sigma before a violation is reported.
"""
import math
import random as _real_random
import sys

import numpy as _real_np

import z3
from symx import And, Or, Not, Implies, eq, same_term, Sym
from symx.core import to_real
from symx.stubs import patched
from .common import guarded, sym_row
from .expl import build_storage

from ixai.storage import UniformReservoirStorage

ID = 'C08'
NAMES = ['f0']

META = {
    'level': 'translation_validation',
    'explanation': 'Translation validation of the shipped update/constructor against Algorithm L: constructor W0 = exp(log a / k), '
                   'next = k + floor(log b / log(1-W0)) + 1; step from an arbitrary full state (n >= k symbolic, 0<W<1, next>n): '
                   'the arrival is stored iff next == n+1, in a slot drawn by randrange over exactly k slots, then '
                   'W\' = W exp(log a / k) and next\' = next + floor(log b / log(1 - W\')) + 1 with the skip drawn from the UPDATED '
                   'weight, for distinct fresh draws a, b (either order of the two draws accepted); otherwise nothing changes; '
                   'the state invariant is re-established. log/exp are uninterpreted functions, so the equalities are proved by '
                   'congruence for every real value of the state and draws.',
    'bounds': {'quick': {'k': '1..3', 'n': 'symbolic (any stream length)'}, 'thorough': {'k': '1..8', 'n': 'symbolic'}},
    'outside': ['uniformity of Algorithm L itself (Li 1994, cited theorem)', 'floating-point rounding in log/exp/floor',
                'random.random() == 0.0', 'k beyond the bound (the code is uniform in k; enumerated only)'],
    'assumptions': ['log, exp uninterpreted with sign axioms; floor = exact ToInt', 'random.random() in (0,1); randrange over the '
                    'requested range', 'invariant: stored_samples >= k, 0 < W < 1, next accept index > stored_samples'],
}


def configs(tier):
    kmax = 3 if tier == 'quick' else 8
    cfgs = []
    for k in range(1, kmax + 1):
        cfgs.append(dict(group='ctor', k=k))
        for tg in (True, False):
            cfgs.append(dict(group='step', k=k, targets=tg))
        cfgs.append(dict(group='step', k=k, targets=True, unlabelled=True))      # the arrival has no label (y=None)
        for j in range(0, k):
            cfgs.append(dict(group='fill', k=k, j=j))
    for dt in ('int8', 'uint8', 'int16', 'int32', 'int64'):
        cfgs.append(dict(group='ctor', k=2, dtype=dt))       # a capacity that is a NumPy integer scalar
    return cfgs


def finding_key(cfg, name):
    return f"{cfg['group']}/{name}"


def numeric(cfg):
    return 'float'


def downgrade_unreproduced(cfg, name):
    """a refinement failure that the concrete replay cannot turn into a non-uniform distribution is not an alarm"""
    return True


def scenario(env, cfg):
    with patched(env) as ctx:
        return globals()['_' + cfg['group']](env, cfg, ctx)


def _alg_l_next(ctx, k, W_new, b, nxt):
    return nxt + (ctx.np.floor(ctx.np.log(b) / ctx.np.log(1 - W_new)) + 1)


def _ctor(env, cfg, ctx):
    if env.mode == 'conc':
        return _concrete_replay(env, cfg)
    k = cfg['k']
    if cfg.get('dtype'):
        k = getattr(_real_np, cfg['dtype'])(k)
    st = guarded(env, 'ctor', UniformReservoirStorage, size=k)
    draws = [c[2] for c in ctx.py_random.calls if c[0] == 'random']
    env.claim('constructor_draws_two_uniforms', len(draws) == 2 and len(ctx.py_random.calls) == 2)
    if len(draws) != 2:
        return
    env.claim('fresh_is_empty', len(st) == 0 and st.stored_samples == 0)
    alts = []
    for a, b in ((draws[0], draws[1]), (draws[1], draws[0])):
        W0 = ctx.np.exp(ctx.np.log(a) / k)
        alts.append(And(eq(st._algo_wt, W0), eq(st._algo_l_counter, _alg_l_next(ctx, k, W0, b, k))))
    env.claim('initial_weight_and_first_accept_index_are_algorithm_L', Or(*alts))
    env.claim('invariant_established', And(st._algo_wt > 0, st._algo_wt < 1, st._algo_l_counter > k))
    env.canary('skip_not_from_a_different_weight', eq(st._algo_l_counter, _alg_l_next(ctx, k, st._algo_wt * st._algo_wt, draws[1], k)))


def _fill(env, cfg, ctx):
    if env.mode == 'conc':
        return _concrete_replay(env, cfg)
    k, j = cfg['k'], cfg['j']
    st, rows, ys = build_storage(env, 'uniform', NAMES, j, store_targets=True, cap=k, stem='old')
    W, nxt = st._algo_wt, st._algo_l_counter
    x_new, y_new = sym_row(env, NAMES, 'new'), env.real('new_y')
    n0 = len(ctx.py_random.calls)
    guarded(env, 'update', st.update, x_new, y_new)
    xs, ys_a = st.get_data()
    env.claim('fill_phase_appends', len(xs) == j + 1 and xs[-1] is x_new and all(a is b for a, b in zip(xs, rows))
              and same_term(ys_a[-1], y_new))
    env.claim('fill_phase_draws_nothing', len(ctx.py_random.calls) == n0)
    env.claim('fill_phase_keeps_weight_and_skip', (st._algo_wt is W or bool(eq(st._algo_wt, W))) and
              (st._algo_l_counter is nxt or bool(eq(st._algo_l_counter, nxt))))
    env.claim('arrivals_counted', st.stored_samples == j + 1)


def _step(env, cfg, ctx):
    if env.mode == 'conc':
        return _concrete_replay(env, cfg)
    k = cfg['k']
    st, rows, ys = build_storage(env, 'uniform', NAMES, k, store_targets=cfg['targets'], cap=k, stem='old')
    n, W, nxt = st.stored_samples, st._algo_wt, st._algo_l_counter
    x_new, y_new = sym_row(env, NAMES, 'new'), (None if cfg.get('unlabelled') else env.real('new_y'))
    n0 = len(ctx.py_random.calls)
    guarded(env, 'update', st.update, x_new, y_new)
    calls = ctx.py_random.calls[n0:]
    xs, ys_a = st.get_data()
    env.claim('capacity_kept', len(xs) == k)
    env.claim('arrivals_counted', eq(st.stored_samples, n + 1))
    changed = [i for i in range(k) if xs[i] is not rows[i]]
    uniforms = [c[2] for c in calls if c[0] == 'random']
    slots = [c for c in calls if c[0] in ('randrange', 'randint')]
    W2, nxt2 = st._algo_wt, st._algo_l_counter
    if changed:
        env.claim('stored_only_at_the_scheduled_index', eq(nxt, n + 1))
        env.claim('exactly_one_slot_takes_the_arrival', len(changed) == 1 and xs[changed[0]] is x_new)
        # the slot distribution itself is decided after exploration from the exact path weights (post_explore)
        if cfg['targets']:
            env.claim('target_in_same_slot', all(same_term(ys_a[i], y_new if i == changed[0] else ys[i]) for i in range(k)))
        env.claim('two_fresh_uniform_draws', len(uniforms) == 2)
        if len(uniforms) == 2:
            alts = []
            for a, b in ((uniforms[0], uniforms[1]), (uniforms[1], uniforms[0])):
                Wn = W * ctx.np.exp(ctx.np.log(a) / k)
                alts.append(And(eq(W2, Wn), eq(nxt2, _alg_l_next(ctx, k, Wn, b, nxt))))
            env.claim('weight_shrinks_then_skip_drawn_from_updated_weight', Or(*alts))
            # the draws that feed W' and the skip must not also decide the slot / the acceptance: each of them can still be
            # anywhere in (0,1) on this path (both ends feasible under the path condition)
            if env.mode == 'sym':
                free = True
                for d in uniforms:
                    lo, _ = env._check(to_real(d.t) < z3.RealVal(1) / 64)
                    hi, _ = env._check(to_real(d.t) > z3.RealVal(63) / 64)
                    free = free and str(lo) == 'sat' and str(hi) == 'sat'
                env.claim('uniform_draws_independent_of_slot_choice', free,
                          detail=f"slot {changed[0]}: a uniform draw used for the weight / skip is constrained by the choice of the slot")
            env.canary('skip_not_from_stale_weight',
                       Or(*[And(eq(W2, W * ctx.np.exp(ctx.np.log(a) / k)), eq(nxt2, _alg_l_next(ctx, k, W, b, nxt)))
                            for a, b in ((uniforms[0], uniforms[1]), (uniforms[1], uniforms[0]))]))
    else:
        env.claim('skipped_only_off_schedule', Not(eq(nxt, n + 1)))
        env.claim('skip_draws_nothing', len(calls) == 0)
        env.claim('skip_keeps_weight_and_schedule', And(eq(W2, W), eq(nxt2, nxt)))
        if cfg['targets']:
            env.claim('targets_unchanged', all(same_term(ys_a[i], ys[i]) for i in range(k)))
    env.claim('invariant_reestablished', And(W2 > 0, W2 < 1, nxt2 > n + 1))
    if not cfg['targets']:
        env.claim('no_targets_kept', len(ys_a) == 0)
    w, _terms = env.path_weight()
    return {'slot': changed[0] if len(changed) == 1 else None, 'weight': w}


def post_explore(env, cfg, results):
    """P(slot = i | the arrival is stored) = 1/k for every slot, from the exact weights of the discrete draws"""
    if cfg['group'] != 'step':
        return
    import z3
    from fractions import Fraction
    from symx.core import Failure
    k = cfg['k']
    acc = [r for r in results if r and r['slot'] is not None]
    tot = sum((r['weight'] for r in acc), Fraction(0))
    for i in range(k):
        wi = sum((r['weight'] for r in acc if r['slot'] == i), Fraction(0))
        ok, model = env.global_claim(f"slot_uniform_over_k[k={k},slot={i}]", z3.RealVal(wi) * k == z3.RealVal(tot))
        if ok is False:
            env.failures.append(Failure('slot_uniform_over_k', [], model,
                                        f"P(slot {i} | stored) = {wi / tot if tot else 'n/a'} instead of 1/{k}"))


# ---- concrete replay ----------------------------------------------------------------------------

class _Scripted:
    def __init__(self, us, slot):
        self.us, self.slot = list(us), slot
        self.n_uniform = 0

    def random(self):
        self.n_uniform += 1
        return self.us.pop(0)

    def randrange(self, a, b=None):
        return min(self.slot, (a if b is None else b - a) - 1)

    def randint(self, a, b):
        return a + min(self.slot, b - a)

    def getrandbits(self, k):
        return self.slot % (2 ** k) if k else 0


def _grid_divergence(k):
    """real floats, real numpy: find a state where the shipped step is not an Algorithm-L step (either draw order)"""
    mod = sys.modules['ixai.storage.uniform_reservoir_storage']
    saved = (mod.random, mod.np, mod.__dict__.get('float'))
    out = []
    try:
        mod.np = _real_np
        mod.__dict__.pop('float', None)
        for W in (0.5, 0.9, 0.2):
            for u1 in (0.5, 0.1, 0.8):
                for u2 in (0.1, 0.6, 0.95):
                    rng = _Scripted([u1, u2, 0.5, 0.5], 0)
                    mod.random = rng
                    st = UniformReservoirStorage(size=k, store_targets=False)
                    rng.us = [u1, u2]
                    st._storage_x = [{'f0': i} for i in range(k)]
                    st.stored_samples = k + 4
                    st._algo_wt = W
                    st._algo_l_counter = k + 5
                    st.update({'f0': 99}, None)
                    ok = False
                    for a, b in ((u1, u2), (u2, u1)):
                        Wn = W * math.exp(math.log(a) / k)
                        nx = (k + 5) + math.floor(math.log(b) / math.log(1 - Wn)) + 1
                        if abs(float(st._algo_wt) - Wn) < 1e-12 and float(st._algo_l_counter) == nx:
                            ok = True
                    if not ok:
                        out.append({'W': W, 'draws': [u1, u2], 'W_after': float(st._algo_wt), 'next_after': float(st._algo_l_counter)})
    finally:
        mod.random, mod.np = saved[0], saved[1]
        if saved[2] is not None:
            mod.__dict__['float'] = saved[2]
    return out


def _monte_carlo(k, n, runs, seed, dtype=None, unlabelled=False):
    mod = sys.modules['ixai.storage.uniform_reservoir_storage']
    saved = (mod.random, mod.np, mod.__dict__.get('float'))
    counts = [0] * n
    try:
        mod.np = _real_np
        mod.__dict__.pop('float', None)
        rng = _real_random.Random(seed)
        mod.random = rng
        for _ in range(runs):
            st = UniformReservoirStorage(size=k if dtype is None else getattr(_real_np, dtype)(k), store_targets=unlabelled)
            for t in range(n):
                if unlabelled and t % 2 == 0:
                    st.update({'f0': t}, float(t))      # every other observation carries a label, the rest none
                else:
                    st.update({'f0': t}, None)
            for r in st.get_data()[0]:
                counts[r['f0']] += 1
    finally:
        mod.random, mod.np = saved[0], saved[1]
        if saved[2] is not None:
            mod.__dict__['float'] = saved[2]
    return [c / runs for c in counts]


def _concrete_replay(env, cfg):
    import os
    k = cfg['k']
    div = _grid_divergence(k)
    env.notes['grid_divergence'] = div[:3]
    seed = int(os.environ.get('VERIF_SEED', '0') or 0)
    worst = None
    dt = cfg.get('dtype')
    # a narrow NumPy capacity: streams longer than the range of its dtype
    shapes = ((1, 3), (2, 4), (3, 7)) if not dt else ((2, {'int8': 150, 'uint8': 280}.get(dt, 40)),)
    for (kk, nn) in shapes:
        runs = 60000 if not dt else 20000
        with __import__('warnings').catch_warnings():
            __import__('warnings').simplefilter('ignore')
            try:
                freq = _monte_carlo(kk, nn, runs, seed + 17, dt, unlabelled=bool(cfg.get('unlabelled')))
            except (ArithmeticError, ValueError, TypeError, IndexError) as exc:
                env.claim('uniform_inclusion_probabilities', False,
                          detail=f"real class, capacity {dt or 'int'}({kk}), stream of {nn}: update raised {type(exc).__name__}: {exc}")
                return
        p = kk / nn
        sigma = math.sqrt(p * (1 - p) / runs)
        dev = max(abs(f - p) for f in freq)
        if worst is None or dev / sigma > worst[0]:
            worst = (dev / sigma, kk, nn, [round(f, 4) for f in freq])
    env.notes['monte_carlo'] = worst
    env.claim('uniform_inclusion_probabilities', worst[0] <= 6.0,
              detail=f"{'not an Algorithm-L step at e.g. ' + str(div[0]) if div else 'state updates follow Algorithm L'}; real class k={worst[1]}, n={worst[2]}: inclusion "
                     f"frequencies {worst[3][:8]}{'...' + str(worst[3][-4:]) if len(worst[3]) > 8 else ''} vs {worst[1]}/{worst[2]} "
                     f"({worst[0]:.0f} sigma{', capacity of dtype ' + dt if dt else ''})")

META['explanation'] += ' The constructor group also runs with NumPy-integer capacities (int8 ... int64): the proxy emits the obligation no_silent_integer_wraparound whenever a NumPy integer narrower than 64 bit meets a weak Python int (NEP 50); a refutation is replayed on the real class with that capacity.'
META['assumptions'].append('64-bit integer counters do not overflow (no stream is that long); narrower NumPy integers are checked')

META['explanation'] += ' The step is also taken with an unlabelled arrival (y=None) on a storage that keeps targets.'
