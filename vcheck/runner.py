"""Runs one property's harness over its enumerated configurations, replays counterexamples
concretely, matches known findings, writes the evidence file and decides the exit code.

exit 0  every obligation discharged within the stated bounds (or only listed known findings)
exit 1  a counterexample was found by the solver AND reproduced concretely against the real code
        (prints ``VIOLATION property=<id> replay=<path>``)
exit 2  harness error / inconclusive (unknown, timeout, non-reproducing model, vacuity guard failed)
"""
from __future__ import annotations

import argparse
import concurrent.futures as cf
import importlib
import json
import os
import sys
import time
import traceback

sys.setrecursionlimit(20000)
VERIF = os.path.dirname(os.path.dirname(os.path.abspath(__file__)))
if VERIF not in sys.path:
    sys.path.insert(0, VERIF)

from symx import core, trace, notorch  # noqa: E402

TORCH_PIDS = {'C14'}     # harnesses that exercise the torch dispatch; everything else blocks the (slow) torch import


def _maybe_block_torch(pid):
    if os.environ.get('SYMX_WITH_TORCH') != '1' and pid not in TORCH_PIDS:
        notorch.install()
from symx.core import SymEnv, ConcEnv, explore, run_concrete, HarnessError  # noqa: E402

EVIDENCE_DIR = os.path.join(VERIF, 'evidence')
REPLAY_DIR = os.path.join(VERIF, 'replays')
KNOWN_FILE = os.path.join(VERIF, 'known_findings.json')


def _json_default(o):
    from fractions import Fraction
    if isinstance(o, Fraction):
        return str(o)
    if isinstance(o, (set, frozenset, tuple)):
        return list(o)
    return repr(o)


def cfg_label(cfg):
    return ' '.join(f"{k}={cfg[k]}" for k in sorted(cfg) if not k.startswith('_'))


def finding_key(mod, cfg, name):
    f = getattr(mod, 'finding_key', None)
    if f is not None:
        return f(cfg, name)
    return f"{cfg.get('group', 'main')}/{name}"


def run_config(pid, cfg, tier, seed, timeout_ms, max_paths):
    """worker: explore one configuration symbolically, replay failures concretely"""
    _maybe_block_torch(pid)
    mod = importlib.import_module(f"vcheck.{pid}")
    _install_reset_hook()
    env = SymEnv(timeout_ms=timeout_ms, seed=seed, max_paths=max_paths)
    env.cross_limit = int(os.environ.get('SYMX_CVC5', '2' if tier == 'thorough' else '0'))
    # on the unchanged tree the slowest quick configuration takes ~20 s, the slowest thorough one ~40 min
    env.wall_budget_s = int(os.environ.get('VERIF_CONFIG_BUDGET_S', getattr(mod, 'CONFIG_BUDGET_S', {}).get(tier, 600 if tier == 'quick' else 14400)))
    trace.start()
    t0 = time.time()
    res = {'cfg': cfg, 'label': cfg_label(cfg), 'error': None, 'failures': [], 'weights': None}
    try:
        results = explore(env, mod.scenario, cfg)
        post = getattr(mod, 'post_explore', None)
        if post is not None:
            post(env, cfg, results)
        env.finish_canaries()
    except HarnessError as e:
        res['error'] = f"HarnessError: {e}"
    except (KeyboardInterrupt, SystemExit):
        raise
    except BaseException as e:  # harness bug or a foreign runtime panic (pyo3): never a verdict, never unpicklable
        res['error'] = f"{type(e).__name__}: {e}\n{traceback.format_exc(limit=8)}"
    res['explore_s'] = round(time.time() - t0, 3)
    # concrete replay of each distinct failure (first per finding key; bounded)
    seen = {}
    numeric = getattr(mod, 'numeric', lambda c: 'fraction')(cfg)
    for f in env.failures:
        key = finding_key(mod, cfg, f.name)
        if key in seen and (seen[key]['reproduced'] or seen[key]['attempts'] >= 3):
            seen[key]['count'] += 1
            continue
        entry = seen.setdefault(key, {'key': key, 'name': f.name, 'claim': f.claim_text, 'detail': f.detail,
                                      'count': 0, 'attempts': 0, 'reproduced': False, 'replay': None,
                                      'replay_note': None})
        entry['count'] += 1
        entry['attempts'] += 1
        cenv = ConcEnv(f.trace, model=f.model, numeric=numeric)
        try:
            viol, err = run_concrete(cenv, mod.scenario, cfg)
        except HarnessError as e:
            viol, err = [], f"HarnessError in replay: {e}"
        except Exception as e:
            viol, err = [], f"replay raised {type(e).__name__}: {e}"
        names = [v[0] for v in viol]
        if viol and (f.name in names or getattr(mod, 'ANY_VIOLATION_REPRODUCES', True)):
            entry['reproduced'] = True
            entry['replay'] = {
                'property': pid, 'config': cfg, 'trace': f.trace, 'table': cenv.table, 'numeric': numeric,
                'obligation': f.name, 'claim': f.claim_text, 'detail': f.detail,
                'concrete_violations': [[n, d] for n, d in viol][:10],
            }
        else:
            entry['replay_note'] = err or f"concrete run satisfied the oracle ({cenv.claims} claims checked)"
    res['failures'] = list(seen.values())
    res['stats'] = env.stats.as_dict()
    res['inconclusive'] = env.inconclusive[:5]
    res['samples'] = env.samples + env.trivial_samples[:max(0, 3 - len(env.samples))]
    res['canaries'] = env.canary_seen
    res['functions'] = trace.functions()
    res['notes'] = env.notes
    res['shared_mutable_defaults'] = getattr(core.PATH_RESET_HOOKS[0], 'functions', []) if core.PATH_RESET_HOOKS else []
    res['claim_ms'] = {k: round(v, 1) for k, v in sorted(env.claim_ms.items(), key=lambda kv: -kv[1])[:6]}
    res['wall_s'] = round(time.time() - t0, 3)
    return res


def load_known(pid):
    try:
        with open(KNOWN_FILE) as fh:
            data = json.load(fh)
    except FileNotFoundError:
        return []
    return [e for e in data.get('findings', []) if e.get('property') == pid]


def _install_reset_hook():
    from symx import stubs
    if not core.PATH_RESET_HOOKS:
        hook = stubs.snapshot_mutable_defaults()
        core.PATH_RESET_HOOKS.append(hook)
    return core.PATH_RESET_HOOKS[0]


def replay_file(pid, path):
    _maybe_block_torch(pid)
    mod = importlib.import_module(f"vcheck.{pid}")
    _install_reset_hook()
    with open(path) as fh:
        rp = json.load(fh)
    cfg = rp['config']
    trace_in = [tuple(e) for e in rp['trace']]
    cenv = ConcEnv(trace_in, model=None, table=rp['table'], numeric=rp.get('numeric', 'fraction'))
    viol, err = run_concrete(cenv, mod.scenario, cfg)
    print(f"replay of {path}: property={pid} config: {cfg_label(cfg)}")
    print(f"  obligation refuted by the solver: {rp['obligation']}")
    if err:
        print(f"  replay note: {err}")
    for n, d in viol:
        print(f"  REPRODUCED against the real code: {n}" + (f" -- {d}" if d else ''))
    if viol:
        print(f"VIOLATION property={pid} replay={path}")
        return 1
    print("  the concrete run satisfied the oracle (violation no longer present)")
    return 0


def main(argv=None):
    ap = argparse.ArgumentParser()
    ap.add_argument('pid')
    ap.add_argument('--tier', default=os.environ.get('VERIF_TIER', 'quick'), choices=['quick', 'thorough'])
    ap.add_argument('--replay', default=None)
    ap.add_argument('--jobs', type=int, default=int(os.environ.get('VERIF_JOBS', '16')))
    ap.add_argument('--only', default=None, help='substring filter on configuration labels (development aid)')
    ap.add_argument('--no-evidence', action='store_true')
    args = ap.parse_args(argv)
    pid = args.pid
    if args.replay:
        return replay_file(pid, args.replay)
    try:
        seed = int(os.environ.get('VERIF_SEED', '0'))
    except ValueError:
        seed = 0
    _maybe_block_torch(pid)
    mod = importlib.import_module(f"vcheck.{pid}")
    tier = args.tier
    t0 = time.time()
    cfgs = list(mod.configs(tier))
    if args.only:
        cfgs = [c for c in cfgs if args.only in cfg_label(c)]
    # schedule expensive configurations first; seed only permutes ties
    import random as _r
    rng = _r.Random(seed)
    order = list(range(len(cfgs)))
    rng.shuffle(order)
    order.sort(key=lambda i: -cfgs[i].get('_cost', 1))
    cfgs = [cfgs[i] for i in order]
    timeout_ms = getattr(mod, 'QUERY_TIMEOUT_MS', {}).get(tier, 60000 if tier == 'quick' else 300000)
    max_paths = getattr(mod, 'MAX_PATHS', {}).get(tier, 300000)
    results = []
    errors = []
    jobs = max(1, min(args.jobs, len(cfgs)))
    if jobs == 1:
        for c in cfgs:
            results.append(run_config(pid, c, tier, seed, timeout_ms, max_paths))
    else:
        with cf.ProcessPoolExecutor(max_workers=jobs) as ex:
            futs = {ex.submit(run_config, pid, c, tier, seed, timeout_ms, max_paths): c for c in cfgs}
            for fut in cf.as_completed(futs):
                try:
                    results.append(fut.result())
                except Exception as e:
                    errors.append(f"worker died on {cfg_label(futs[fut])}: {type(e).__name__}: {e}")
    results.sort(key=lambda r: r['label'])

    # ---- aggregate ------------------------------------------------------------------------
    total = core.Stats()
    functions = set()
    samples = []
    inconclusive = []
    failures = []
    canary_fail = []
    for r in results:
        total.add(r.get('stats', {}))
        functions.update(r.get('functions', []))
        for s in sorted(r.get('samples', []), key=lambda x: x.get('decided_by') != 'z3'):
            if len(samples) < 10 and not any(x['obligation'] == s['obligation'] for x in samples):
                samples.append(dict(s, config=r['label']))
        if r['error']:
            errors.append(f"{r['label']}: {r['error']}")
        for n, t in r.get('inconclusive', []):
            inconclusive.append(f"{r['label']}: {n}: {t}")
        for n, ok in r.get('canaries', {}).items():
            if not ok:
                canary_fail.append(f"{r['label']}: canary '{n}' was never refuted")
        for f in r['failures']:
            failures.append((r, f))
        if r.get('stats', {}).get('refuted', 0) > 0 and not r['failures'] and not r['error']:
            errors.append(f"{r['label']}: {r['stats']['refuted']} refuted obligation(s) without a counterexample record")
        if r.get('stats', {}).get('obligations', 0) == 0 and not r['error'] and not getattr(mod, 'ALLOW_EMPTY', False):
            errors.append(f"{r['label']}: no obligation was reached (vacuous configuration)")
    if not samples:
        for r in results:
            samples.extend(dict(s, config=r['label']) for s in r.get('samples', [])[:1])

    second_engine = None
    te = getattr(mod, 'thorough_extra', None)
    if te is not None and tier == 'thorough' and not args.only:
        try:
            second_engine = te()
            for r in second_engine:
                if r['verdict'] == 'counterexample':
                    errors.append(f"second engine (CrossHair) reports a counterexample for {r['condition']}: {r['output']}")
        except Exception as e:  # noqa: BLE001
            second_engine = [{'condition': 'crosshair', 'verdict': 'inconclusive', 'output': f"{type(e).__name__}: {e}"}]
    known = load_known(pid)
    open_known = {e['key']: e for e in known if e.get('status', 'open') == 'open'}
    violations = []       # new, reproduced
    known_hits = {}
    unreproduced = []
    downgraded = []
    os.makedirs(REPLAY_DIR, exist_ok=True)
    by_key = {}
    for r, f in failures:
        by_key.setdefault(f['key'], []).append((r, f))
    n_replay = 0
    for key, lst in sorted(by_key.items()):
        rep = [(r, f) for r, f in lst if f['reproduced']]
        if not rep:
            r, f = lst[0]
            dg = getattr(mod, 'downgrade_unreproduced', None)
            if dg is not None and dg(r['cfg'], f['name']):
                downgraded.append(f"{r['label']}: {f['name']}: refuted by the solver but the concrete replay shows no "
                                  f"violation of the property itself ({f['replay_note']})")
                continue
            unreproduced.append(f"{r['label']}: {f['name']}: solver model did not reproduce ({f['replay_note']})")
            continue
        r, f = rep[0]
        if key in open_known:
            known_hits[key] = (open_known[key], sum(x[1]['count'] for x in lst))
            continue
        n_replay += 1
        path = os.path.join(REPLAY_DIR, f"{pid}-{n_replay}.json")
        with open(path, 'w') as fh:
            json.dump(f['replay'], fh, indent=1, default=_json_default)
        violations.append({'key': key, 'obligation': f['name'], 'config': r['label'], 'claim': f['claim'],
                           'detail': f['detail'], 'replay': path,
                           'paths_failing': sum(x[1]['count'] for x in lst),
                           'concrete': f['replay']['concrete_violations'][:3]})

    wall = round(time.time() - t0, 2)
    meta = getattr(mod, 'META', {})
    level = meta.get('level', 'other')
    st = total.as_dict()
    harness_error = bool(errors or inconclusive or canary_fail or unreproduced)
    coverage = {
        'explanation': meta.get('explanation', ''),
        'technique': 'symbolic execution of the real /repo code on z3-backed proxy values (symx); every obligation is a '
                     'validity query pc => claim decided by z3; counterexamples replayed concretely',
        'functions_encoded': sorted(functions),
        'bounds': meta.get('bounds', {}).get(tier, meta.get('bounds', {})),
        'outside_bounds': meta.get('outside', []),
        'configurations': len(results),
        'paths_explored': st['paths'], 'paths_completed': st['completed_paths'], 'paths_aborted': st['aborted_paths'],
        'forks': st['forks'],
        'obligations_decided_by_solver': st['obligations'] - st['trivial_claims'],
        'obligations_decided_by_term_identity_or_execution': st['trivial_claims'],
        'solver_queries_answered_from_cache': st['cache_hits'],
        'obligations': st['obligations'], 'discharged': st['discharged'], 'refuted': st['refuted'],
        'inconclusive': st['inconclusive'],
        'solver_queries': st['queries'], 'solver_seconds': round(st['solver_s'], 3),
        'unknown_feasibility_checks': st['unknown_feasibility'],
        'unknown_answers_retried_with_another_seed': st['unknown_retries'],
        'second_solver_cvc5': {'queries_rechecked': st['cvc5_checked'], 'agree': st['cvc5_agree'], 'unknown': st['cvc5_unknown'],
                               'disagree': st['cvc5_disagree'], 'seconds': round(st['cvc5_s'], 2)},
        'vacuity_witnesses': st['vacuity_witnesses'],
        'second_engine_crosshair': second_engine,
        'canary_claims': st['canaries'], 'canary_claims_refuted': st['canaries_refuted'],
        'evaluations': st['paths'],
        'distinct_nontrivial': st['completed_paths'],
        'rule': 'one evaluation = one symbolic path of the real code through one enumerated configuration (distinct decision '
                'traces by construction of the DFS); non-trivial = the path completed and reached at least the final '
                'obligations (aborted / infeasible paths are not counted)',
        'states': max(st['completed_paths'], 1), 'transitions': max(st['queries'], 1),
        'traces_validated_against_impl': sum(1 for _r, f in failures if f['reproduced']),
        'checker_cmd': f"./check {pid} --tier {tier}",
        'trusted_base': ['z3 5.1.0', 'CPython 3.12 dunder protocol', '/verif/symx', 'stubs listed under assumptions',
                         'reference oracles in /verif/vcheck/' + pid + '.py'],
        'programs': len(results), 'disagreements_checked': st['refuted'],
        'exhaustive': False,
        'samples': samples or [{'note': 'no obligation sample recorded'}],
        'per_configuration': [{'config': r['label'], 'paths': r.get('stats', {}).get('paths', 0),
                               'obligations': r.get('stats', {}).get('obligations', 0),
                               'discharged': r.get('stats', {}).get('discharged', 0),
                               'queries': r.get('stats', {}).get('queries', 0),
                               'solver_s': round(r.get('stats', {}).get('solver_s', 0.0), 3),
                               'wall_s': r.get('wall_s')} for r in results][:400],
        'known_findings_hit': [{'key': k, 'what': e['what'], 'paths': n} for k, (e, n) in known_hits.items()],
        'violations_detail': violations,
        'refuted_but_not_a_property_violation': downgraded[:10],
        'harness_errors': (errors + inconclusive + canary_fail + unreproduced)[:20],
    }
    extra = getattr(mod, 'evidence_extra', None)
    if extra is not None:
        try:
            coverage.update(extra(results, tier))
        except Exception as e:  # pragma: no cover
            coverage['evidence_extra_error'] = repr(e)
    evidence = {
        'property_id': pid, 'tier': tier, 'seed': seed, 'level': level,
        'coverage': coverage,
        'assumptions': meta.get('assumptions', []),
        'wall_s': wall,
        'violations': len(violations),
    }
    if not args.no_evidence and not args.only:
        os.makedirs(EVIDENCE_DIR, exist_ok=True)
        with open(os.path.join(EVIDENCE_DIR, f"{pid}.json"), 'w') as fh:
            json.dump(evidence, fh, indent=1, default=_json_default)

    # ---- report ---------------------------------------------------------------------------
    print(f"[{pid}] tier={tier} configs={len(results)} paths={st['paths']} obligations={st['obligations']} "
          f"discharged={st['discharged']} refuted={st['refuted']} inconclusive={st['inconclusive']} "
          f"queries={st['queries']} solver_s={st['solver_s']:.1f} wall_s={wall}")
    if os.environ.get('VERIF_VERBOSE'):
        for r in sorted(results, key=lambda r: -(r.get('wall_s') or 0))[:8]:
            print(f"  slow: {r.get('wall_s')}s paths={r.get('stats', {}).get('paths')} {r['label']} {r.get('claim_ms')}")
    for k, (e, n) in sorted(known_hits.items()):
        print(f"KNOWN-FINDING: property={pid} {e['what']} [{k}; {n} failing paths]")
    for v in violations:
        print(f"  refuted: {v['obligation']} in {v['config']}: {v['claim']}" + (f" -- {v['detail']}" if v['detail'] else ''))
        print(f"VIOLATION property={pid} replay={v['replay']}")
    for e in downgraded[:5]:
        print(f"NOTE: {e}")
    for e in (errors + inconclusive + canary_fail + unreproduced)[:20]:
        print(f"HARNESS-ERROR/INCONCLUSIVE: {e}")
    if violations:
        return 1
    if harness_error:
        return 2
    return 0


if __name__ == '__main__':
    sys.exit(main())
