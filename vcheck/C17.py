"""C17 - a failing callback leaves the explainer's estimates untouched (symbolic crash index)."""
from symx import And, Or, Not, Implies, eq, same_term
from symx import HarnessError
from symx.stubs import patched, UFModel, UFLoss, FaultPlan, Boom, BOOM_TYPES
from .common import guarded, total, sym_row, names_for
from .expl import build_incremental, build_storage, LoggingImputer

from ixai.explainer import IncrementalPFI, IncrementalSage
from ixai.explainer.sage import BatchSage, IntervalSage
from ixai.imputer import MarginalImputer

ID = 'C17'
CLASSES = {'IncrementalSage': IncrementalSage, 'IncrementalPFI': IncrementalPFI, 'BatchSage': BatchSage,
           'IntervalSage': IntervalSage}

META = {
    'level': 'fault_enumeration',
    'explanation': 'Fault plan "the k-th callback invocation (model, loss, imputer or storage) inside explain_one raises" with k a '
                   'symbolic integer: every callback site forks on k == i, so one symbolic run covers every crash point, for every '
                   'feature order and background draw, from an arbitrary symbolic tracker state. On each raising path z3 proves '
                   'that every estimate equals its pre-call term; then a fault-free call from the post-crash state must satisfy '
                   'the efficiency identity (C01). Repeated faults = the same step again (induction over the stream).',
    'bounds': {'quick': {'d': '1..3', 'q': '1..2', 'm': '1..2', 'batch n': 2},
               'thorough': {'d': '1..3', 'q': '1..2', 'm': '1..3', 'batch n': 3}},
    'outside': ['failures inside tracker arithmetic itself', 'asynchronous exceptions (KeyboardInterrupt) between two bytecodes',
                'sizes beyond the bounds'],
    'assumptions': ['a failing callback raises an ordinary Exception and has no other side effect',
                    'model / loss deterministic (uninterpreted functions)', 'every random outcome explored'],
}


def configs(tier):
    cfgs = []

    def add(**k):
        if k not in cfgs:
            cfgs.append(k)
    for cls in ('IncrementalSage', 'IncrementalPFI'):
        for mode in ('static', 'dynamic'):
            add(group='inc', cls=cls, d=1, q=1, m=1, mode=mode, imputer='joint', storage='batch', resume=True, _cost=10)
            for exc in ('StopIteration', 'KeyError', 'AttributeError', 'ZeroDivisionError', 'ValueError'):
                add(group='inc', cls=cls, d=2, q=2, m=1, mode=mode, imputer='joint', storage='interval', resume=False, exc=exc, _cost=150)
            add(group='inc', cls=cls, d=1, q=1, m=1, mode=mode, imputer='joint', storage='batch', resume=True, faults=2, _cost=100)
            add(group='inc', cls=cls, d=2, q=1, m=1, mode=mode, imputer='joint', storage='interval', resume=True, faults=2, _cost=900)
            add(group='inc', cls=cls, d=2, q=1, m=2, mode=mode, imputer='joint', storage='batch', resume=True, _cost=400)
            add(group='inc', cls=cls, d=2, q=2, m=1, mode=mode, imputer='product', storage='interval', resume=False, _cost=100)
            add(group='inc', cls=cls, d=2, q=1, m=2, mode=mode, imputer='joint', storage='geometric', resume=False, _cost=100)
            add(group='inc', cls=cls, d=2, q=1, m=2, mode=mode, imputer='joint', storage='uniform', resume=False, _cost=100)
            add(group='inc', cls=cls, d=2, q=1, m=1, mode=mode, imputer='default', storage='batch', resume=True, _cost=50)
            add(group='inc', cls=cls, d=2, q=1, m=2, mode=mode, imputer='joint', storage='batch', labels=2, resume=False, _cost=200)
            add(group='inc', cls=cls, d=1, q=1, m=1, mode=mode, imputer='default', storage='batch', labels=2, varlabels=True, resume=True, _cost=200)
            add(group='inc', cls=cls, d=2, q=1, m=1, mode=mode, imputer='joint', storage='batch', labels=3, varlabels=True, resume=False, _cost=800)
            add(group='inc', cls=cls, d=3, q=1, m=1, mode=mode, imputer='joint', storage='batch', resume=False, _cost=300)
            if tier == 'thorough':
                add(group='inc', cls=cls, d=3, q=1, m=2, mode=mode, imputer='joint', storage='batch', resume=False, _cost=3000)
                add(group='inc', cls=cls, d=2, q=2, m=2, mode=mode, imputer='joint', storage='batch', resume=True, _cost=3000)
                add(group='inc', cls=cls, d=2, q=1, m=3, mode=mode, imputer='product', storage='batch', resume=True, _cost=3000)
    for cls in ('BatchSage', 'IntervalSage'):
        add(group='batch', cls=cls, d=2, n=2, q=1, orig=False, _cost=300)
        add(group='batch', cls=cls, d=1, n=2, q=2, orig=False, _cost=100)
        add(group='batch', cls=cls, d=1, n=2, q=1, orig=False, prior=True, _cost=100)
        add(group='batch', cls=cls, d=2, n=2, q=1, orig=False, prior=True, _cost=300)
        for exc in ('StopIteration', 'KeyError', 'ZeroDivisionError'):
            add(group='batch', cls=cls, d=1, n=2, q=2, orig=False, exc=exc, _cost=100)
        if cls == 'BatchSage':
            add(group='batch', cls=cls, d=2, n=2, q=1, orig=True, _cost=300)
        if tier == 'thorough':
            add(group='batch', cls=cls, d=2, n=3, q=1, orig=False, _cost=30000)
        # long explanation runs: hundreds of stored rows, the failing callback is one of the last ones (fork-free: one feature,
        # default imputer, so the only forks are the positions of the fault)
        for n in ((260,) if tier == 'quick' else (260, 520, 1030)):
            add(group='batch', cls=cls, d=1, n=n, q=1, orig=False, late=24, imputer='default', _cost=2000)
    return cfgs


def finding_key(cfg, name):
    # one finding per explainer class, kind of failing callback (model / loss / imputer / storage) and exception type
    kind = name.rsplit(':', 1)[1] if ':' in name else name
    exc = '' if cfg.get('exc', 'Exception') == 'Exception' else f"[{cfg['exc']}]"
    return f"{cfg['cls']}/estimates_changed_by_failing:{kind}{exc}"


def scenario(env, cfg):
    with patched(env):
        return globals()['_' + cfg['group']](env, cfg)


def _snapshot(ex, sage):
    snap = {'imp': dict(ex.importance_values), 'var': dict(ex.variances),
            'imp_N': ex._importance_trackers.N, 'var_N': ex._variance_trackers.N}
    if sage:
        snap.update(marg=ex.marginal_loss, model=ex.model_loss, expl=ex.explained_loss,
                    mpred=dict(ex._marginal_prediction_tracker.get()),
                    mpred_norm=dict(ex._marginal_prediction_tracker.get_normalized()),
                    mpred_attr=dict(ex.marginal_prediction),
                    marg_N=ex._marginal_loss_tracker.N, model_N=ex._model_loss_tracker.N,
                    mpred_N=ex._marginal_prediction_tracker.N)
    return snap


def _same_dict(env, name, a, b, site):
    env.claim(name + ':keys', set(a.keys()) == set(b.keys()), detail=site)
    if set(a.keys()) == set(b.keys()):
        env.claim(name, And(*[eq(a[k], b[k]) for k in a]) if a else True, detail=site)


def _inc(env, cfg):
    cls = CLASSES[cfg['cls']]
    sage = cls is IncrementalSage
    plan = FaultPlan(env, exc=cfg.get('exc', 'Exception'))
    b = build_incremental(env, cls, cfg, faults=plan)
    ex, names = b['ex'], b['names']
    if sage:
        # the attribute mirrors the tracker's normalised view in every reachable state
        ex.marginal_prediction = dict(ex._marginal_prediction_tracker.get_normalized())
    snap = _snapshot(ex, sage)
    raised = None
    try:
        ex.explain_one(b['x'], b['y'])
    except BOOM_TYPES as e:
        raised = e
    except Exception as e:  # noqa: BLE001
        env.fail(f"explain_one:raises:{type(e).__name__}", str(e), detail=str(e)[:200])
        return
    if plan.fired_at is None:
        env.claim('no_fault_no_exception', raised is None)
        return
    site = f"crash at callback #{plan.fired_at[0]} ({plan.fired_at[1]})"
    kind = plan.fired_at[1]
    env.claim(f"exception_propagates:{kind}", raised is not None, detail=site)
    if raised is None:
        return
    now = _snapshot(ex, sage)
    _same_dict(env, f"importance_unchanged:{kind}", now['imp'], snap['imp'], site)
    _same_dict(env, f"variances_unchanged:{kind}", now['var'], snap['var'], site)
    env.claim(f"update_counts_unchanged:{kind}", And(eq(now['imp_N'], snap['imp_N']), eq(now['var_N'], snap['var_N'])),
              detail=site)
    if sage:
        env.claim(f"marginal_loss_unchanged:{kind}", eq(now['marg'], snap['marg']), detail=site)
        env.claim(f"model_loss_unchanged:{kind}", eq(now['model'], snap['model']), detail=site)
        _same_dict(env, f"marginal_prediction_unchanged:{kind}", now['mpred'], snap['mpred'], site)
        _same_dict(env, f"marginal_prediction_attr_unchanged:{kind}", now['mpred_attr'], snap['mpred_attr'], site)
        env.claim(f"tracker_counts_unchanged:{kind}", And(eq(now['marg_N'], snap['marg_N']), eq(now['model_N'], snap['model_N']),
                                                         eq(now['mpred_N'], snap['mpred_N'])), detail=site)
    if cfg.get('faults', 1) >= 2:
        # a second failing call right after the first one (its own symbolic crash index), estimates still untouched
        plan2 = FaultPlan(env, name='crash_k2')
        plan.fired_at, plan.enabled = ('done', 'done'), False
        b['model'].faults = b['loss'].faults = b['imputer'].faults = plan2
        real_upd = b['storage'].update

        def upd2(*a, **k):
            plan2.tick('storage')
            return real_upd(*a, **k)
        b['storage'].update = upd2
        raised2 = None
        try:
            ex.explain_one(sym_row(env, names, 'x1b'), env.real('y1b'))
        except BOOM_TYPES as e:
            raised2 = e
        if plan2.fired_at is not None:
            kind2 = plan2.fired_at[1]
            site2 = f"second crash at callback #{plan2.fired_at[0]} ({kind2}) after {site}"
            env.claim(f"exception_propagates:{kind2}", raised2 is not None, detail=site2)
            now2 = _snapshot(ex, sage)
            _same_dict(env, f"importance_unchanged:{kind2}", now2['imp'], snap['imp'], site2)
            _same_dict(env, f"variances_unchanged:{kind2}", now2['var'], snap['var'], site2)
            if sage:
                env.claim(f"marginal_loss_unchanged:{kind2}", eq(now2['marg'], snap['marg']), detail=site2)
                env.claim(f"model_loss_unchanged:{kind2}", eq(now2['model'], snap['model']), detail=site2)
                _same_dict(env, f"marginal_prediction_unchanged:{kind2}", now2['mpred'], snap['mpred'], site2)
        else:
            return      # the second call went through: nothing more to compare with the first snapshot
        plan2.enabled = False
    if cfg.get('resume') and sage:
        x2 = sym_row(env, names, 'x2')
        y2 = env.real('y2')
        n_ret = len(b['model'].returned)
        guarded(env, 'resume_explain_one', ex.explain_one, x2, y2)
        s = total(list(ex.importance_values.values()))
        env.claim(f"efficiency_after_resuming:{kind}", eq(s, ex.explained_loss), detail=site)
        # nothing of the failed call shows LATER either: the successful call is exactly ONE step from the state before the
        # failed call (a scratch buffer that kept the failed observation and is swapped in now would make it two)
        after = _snapshot(ex, sage)
        env.claim(f"one_step_from_the_state_before_the_failed_call:{kind}",
                  And(*[eq(after[c], snap[c] + 1) for c in ('imp_N', 'var_N', 'marg_N', 'model_N', 'mpred_N')]), detail=site)
        if b['dynamic'] and not cfg.get('labels') and set(after['mpred']) == set(snap['mpred']):
            a = ex._smoothing_alpha
            outs = [o for (_d, o) in b['model'].returned[n_ret:]]
            env.claim(f"marginal_prediction_is_one_smoothing_step_from_the_state_before_the_failed_call:{kind}",
                      Or(*[And(*[eq(after['mpred'][k], (1 - a) * snap['mpred'][k] + a * (o[k] if k in o else 0))
                                 for k in snap['mpred']]) for o in outs]) if outs else False, detail=site)
    env.canary('crash_changes_nothing_is_not_vacuous', False)


def _batch(env, cfg):
    cls = CLASSES[cfg['cls']]
    d, n, q = cfg['d'], cfg['n'], cfg['q']
    names = names_for('str', d)
    late = cfg.get('late')
    # a run over n rows makes 2 + 5 n callback invocations (storage update, batch prediction; per row: loss, imputer,
    # model, model-output, loss); with `late` only the last `late` of them may fail
    total_ticks = 1 + n * 5 if late else 0      # measured for d = 1, q = 1, default imputer; re-checked on the fault-free path below
    plan = FaultPlan(env, enabled=True, exc=cfg.get('exc', 'Exception'), lo=max(0, total_ticks - late) if late else 0)
    plan.fired_at = ('off', 'off')          # armed only for the call under test
    model = UFModel(env, names, faults=plan)
    loss = UFLoss(env, faults=plan)
    kw = {'n_inner_samples': q}
    if cfg.get('imputer') == 'default':
        from ixai.imputer import DefaultImputer
        kw['imputer'] = DefaultImputer(model, {f: 0.0 for f in names})
    if cls is IntervalSage:
        kw.update(interval_length=1, storage_length=n)
    ex = guarded(env, 'ctor', cls, model, names, loss, **kw)
    real_update = ex._storage.update

    def upd(*a, **k):
        plan.tick('storage')
        return real_update(*a, **k)
    ex._storage.update = upd
    limp = LoggingImputer(ex._imputer, faults=plan)
    ex._imputer = limp
    prior = cfg.get('prior')
    for t in range(n - 1 - (1 if prior else 0)):
        guarded(env, 'update_storage', ex.update_storage, sym_row(env, names, f"x{t}"), env.real(f"y{t}"))
    if prior:
        # previous estimates come from a REAL completed run of the same object (faults disarmed): a buffer that the
        # published values share with the next run's scratch space shows only then
        guarded(env, 'prior_explain_one', ex.explain_one, sym_row(env, names, 'xp'), env.real('yp'), verbose=False)
    else:
        # previous estimates: arbitrary values (any earlier explanation)
        ex.importance_values = {f: env.real(f"prev_{i}") for i, f in enumerate(names)}
    snap = dict(ex.importance_values)
    x, y = sym_row(env, names, 'x'), env.real('y')
    plan.fired_at = None
    plan.i = 0
    raised = None
    ekw = {'verbose': False}
    if cfg['orig']:
        ekw['original_sage'] = True
    try:
        ex.explain_one(x, y, **ekw)
    except BOOM_TYPES as e:
        raised = e
    except Exception as e:  # noqa: BLE001
        env.fail(f"explain_one:raises:{type(e).__name__}", str(e), detail=str(e)[:200])
        return
    if late and plan.fired_at is None and raised is None and plan.i != total_ticks:
        raise HarnessError(f"a fault-free run made {plan.i} callback invocations, the harness expected {total_ticks}: "
                           f"the 'last {late} invocations' would not be the last ones")
    if plan.fired_at is None:
        env.claim('no_fault_no_exception', raised is None)
        return
    site = f"crash at callback #{plan.fired_at[0]} ({plan.fired_at[1]})"
    kind = plan.fired_at[1]
    env.claim(f"exception_propagates:{kind}", raised is not None, detail=site)
    _same_dict(env, f"importance_unchanged:{kind}", dict(ex.importance_values), snap, site)
    env.canary('crash_changes_nothing_is_not_vacuous', False)


META['explanation'] += ' Further dimensions: exception type (Exception, StopIteration, KeyError, AttributeError, ZeroDivisionError, ValueError), sparse label outputs, two consecutive failing calls; after resuming, every tracker is exactly one update (the marginal prediction one smoothing step) from the state before the failed call; batch explainers also with the previous estimates produced by a real completed run of the same object (prior=True).'

META['explanation'] += ' Long runs: 260 (thorough up to 1030) stored rows, one feature, default imputer; the failing callback is any of the last 24 invocations of the run.'
