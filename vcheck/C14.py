"""C14 - model wrappers give one canonical dict output form for single and batch input (reduced scope, stated)."""
import itertools
import sys
import types

import numpy as _np

from symx import And, Or, Not, Implies, eq, same_term, Sym, is_nonfinite
from symx.stubs import patched
from .common import guarded, sym_row, names_for

from ixai.utils.wrappers.base import Wrapper
from ixai.utils.wrappers import SklearnWrapper, RiverWrapper, TorchWrapper
from ixai.utils.validators import validate_model_function                      # the public entry point (package level)
from ixai.utils.validators.model import validate_model_function as _validate_model_function_module_level

ID = 'C14'

META = {
    'level': 'other',
    'explanation': 'Real Wrapper.convert_* / SklearnWrapper.__call__ / RiverWrapper.__call__/_extend_dict / TorchWrapper.__call__ '
                   '(with a stub torch module: tensor = boxed ndarray) driven by a stub prediction function that returns a REAL '
                   'ndarray of each shape in {(), (1,), (1,1), (c,), (1,c), (n,), (n,1), (n,c)} whose payload is an uninterpreted '
                   'function of the row it was given; shape semantics (float(array), flatten, indexing) are the installed NumPy\'s, '
                   'payload is symbolic, so single-vs-batch agreement and feature routing are decided for all values. '
                   'validate_model_function dispatch is executed once per callable kind (finite type dispatch, no symbolic input).',
    'bounds': {'quick': {'d': '1..3', 'batch n': '1..3', 'classes c': '2..3', 'key orders': 'all d! (+ an extra unexplained feature)'},
               'thorough': {'d': '1..5', 'batch n': '1..5', 'classes c': '2..5', 'key orders': 'all d!'}},
    'outside': ['real torch tensors / autograd / devices (TorchWrapper runs against a stub torch)', 'real scikit-learn estimators and '
                'river models beyond the dispatch on their bound methods', 'dtype effects (integer / string arrays)',
                'models whose rows are not computed independently'],
    'assumptions': ['the prediction function computes rows independently (its output for a row is a function of that row)',
                    'float(object-array) modelled by asking the installed NumPy whether an array OF THAT SHAPE converts',
                    'stub torch: torch.tensor(array) boxes the array; .detach().cpu().numpy() unboxes it'],
}


def configs(tier):
    cfgs = []
    dmax, nmax, cmax = (3, 3, 3) if tier == 'quick' else (5, 5, 5)
    single_shapes = ['()', '(1,)', '(1,1)'] + [f"({c},)" for c in range(2, cmax + 1)] + [f"(1,{c})" for c in range(2, cmax + 1)]
    for wr in ('sklearn', 'torch'):
        for shp in single_shapes:
            for d in range(1, dmax + 1):
                cfgs.append(dict(group='single', wrapper=wr, shape=shp, d=d, named=True))
            cfgs.append(dict(group='single', wrapper=wr, shape=shp, d=2, named=False))
        for n in range(1, nmax + 1):
            for shp in ['(n,)', '(n,1)'] + [f"(n,{c})" for c in range(2, cmax + 1)]:
                cfgs.append(dict(group='batch', wrapper=wr, shape=shp, n=n, d=2, named=True))
            cfgs.append(dict(group='batch', wrapper=wr, shape='(n,2)', n=n, d=2, named=False))
        for d in range(1, dmax + 1):
            cfgs.append(dict(group='routing', wrapper=wr, d=d, _cost=24 * d))
        cfgs.append(dict(group='routing', wrapper=wr, d=2, names='int', _cost=24))
        cfgs.append(dict(group='routing', wrapper=wr, d=2, names='mixed', _cost=24))
        for named in (True, False):
            cfgs.append(dict(group='typed_rows', wrapper=wr, d=2, named=named))
    cfgs.append(dict(group='river'))
    cfgs.append(dict(group='dispatch'))
    return cfgs


def finding_key(cfg, name):
    return f"{cfg['group']}/{cfg.get('shape', '-')}/{name}"


def scenario(env, cfg):
    with patched(env):
        return globals()['_' + cfg['group']](env, cfg)


# ---- stub prediction function / stub torch -------------------------------------------------------

class Predictor:
    """returns a real ndarray of the requested shape; entry [i, j] = P_j(row i) (uninterpreted), logs the arrays it got"""

    def __init__(self, env, d, shape, boxed=False):
        self.env, self.d, self.shape, self.boxed = env, d, shape, boxed
        self.inputs = []
        self.version = 0        # a model that learns between calls: every version is another (uninterpreted) function

    def val(self, row, j):
        return self.env.uf(f"P{j}" + (f"_v{self.version}" if self.version else ''), self.d)(*row)

    def __call__(self, arr):
        if self.boxed:
            arr = arr.data
        self.inputs.append(arr)
        n = arr.shape[0]
        shp = self.shape
        rows = [list(arr[i]) for i in range(n)]
        if shp == '()':
            out = _np.empty((), dtype=object)
            out[()] = self.val(rows[0], 0)
        elif shp in ('(1,)', '(n,)'):
            out = _np.empty((n,), dtype=object)
            for i in range(n):
                out[i] = self.val(rows[i], 0)
        elif shp in ('(1,1)', '(n,1)'):
            out = _np.empty((n, 1), dtype=object)
            for i in range(n):
                out[i, 0] = self.val(rows[i], 0)
        elif shp.startswith('(1,') or shp.startswith('(n,'):
            c = int(shp[3:-1])
            out = _np.empty((n, c), dtype=object)
            for i in range(n):
                for j in range(c):
                    out[i, j] = self.val(rows[i], j)
        else:                                  # '(c,)' : a flat probability vector for the single row
            c = int(shp[1:-2])
            out = _np.empty((c,), dtype=object)
            for j in range(c):
                out[j] = self.val(rows[0], j)
        if self.env.mode == 'conc':
            out = out.astype(float)
        return _Boxed(out) if self.boxed else out


class _Boxed:
    def __init__(self, data): self.data = data
    def detach(self): return self
    def cpu(self): return self
    def numpy(self): return self.data


def _fake_torch():
    t = types.SimpleNamespace()
    t.float32 = 'float32'
    t.tensor = lambda data, device=None, dtype=None: _Boxed(_np.asarray(data))
    return t


def _make(env, cfg, names_arg):
    d = cfg['d']
    if cfg['wrapper'] == 'sklearn':
        pred = Predictor(env, d if names_arg is None else len(names_arg), cfg.get('shape', '()'))
        return SklearnWrapper(pred, feature_names=names_arg), pred, None
    mod = sys.modules['ixai.utils.wrappers.torch']
    pred = Predictor(env, d if names_arg is None else len(names_arg), cfg.get('shape', '()'), boxed=True)
    saved = mod.__dict__.get('torch', None)
    mod.torch = _fake_torch()
    try:
        return TorchWrapper(pred, feature_names=names_arg), pred, (mod, saved)
    except Exception:
        _restore((mod, saved))
        raise


def _restore(tok):
    if tok is not None:
        mod, saved = tok
        if saved is None:
            mod.__dict__.pop('torch', None)
        else:
            mod.torch = saved


def _canonical(pred, row, shape):
    """the canonical dict the property demands for one row"""
    if shape in ('()', '(1,)', '(1,1)', '(n,)', '(n,1)'):
        return {'output': pred.val(row, 0)}
    c = int(shape[3:-1]) if shape.startswith('(1,') or shape.startswith('(n,') else int(shape[1:-2])
    return {j: pred.val(row, j) for j in range(c)}


def _same_dict(env, name, got, exp, detail=None):
    ok_keys = isinstance(got, dict) and list(got.keys()) == list(exp.keys()) and \
        all(type(a) is type(b) for a, b in zip(got.keys(), exp.keys()))
    env.claim(name + ':keys', ok_keys, detail=f"{detail or ''} got keys {list(got.keys()) if isinstance(got, dict) else type(got).__name__}, "
                                              f"expected {list(exp.keys())}")
    if ok_keys:
        env.claim(name + ':values', And(*[eq(got[k], exp[k]) for k in exp]) and not any(is_nonfinite(v) for v in got.values()))


def _single(env, cfg):
    names = names_for('str', cfg['d'])
    w, pred, tok = _make(env, cfg, list(names) if cfg['named'] else None)
    try:
        x = sym_row(env, names, 'x')
        out = guarded(env, 'call_dict', w, x)
        row = [x[f] for f in names]
        _same_dict(env, 'single_prediction_canonical', out, _canonical(pred, row, cfg['shape']), detail=f"shape {cfg['shape']}")
        env.claim('model_got_one_row_of_d_features', len(pred.inputs) == 1 and pred.inputs[0].shape == (1, cfg['d']))
        env.claim('input_unmodified', list(x.keys()) == names)
        # the wrapped model learns between two calls: the SAME input (same object, then an equal copy) must be evaluated by
        # the model as it is now - a wrapper is a view of the model, not a cache of its answers
        for rep, xin in enumerate((x, dict(x))):
            pred.version += 1
            out2 = guarded(env, 'call_dict_again', w, xin)
            _same_dict(env, 'repeated_input_sees_the_current_model', out2, _canonical(pred, row, cfg['shape']),
                       detail=f"call {rep + 2} with the same input after the model changed")
            env.claim('prediction_function_evaluated_at_every_call', len(pred.inputs) == rep + 2)
    finally:
        _restore(tok)


def _batch(env, cfg):
    names = names_for('str', cfg['d'])
    n = cfg['n']
    w, pred, tok = _make(env, cfg, list(names) if cfg['named'] else None)
    try:
        xs = [sym_row(env, names, f"x{i}") for i in range(n)]
        out = guarded(env, 'call_list', w, xs)
        env.claim('list_in_list_out', isinstance(out, list) and len(out) == n)
        if not (isinstance(out, list) and len(out) == n):
            return
        for i in range(n):
            row = [xs[i][f] for f in names]
            _same_dict(env, 'batch_row_canonical', out[i], _canonical(pred, row, cfg['shape']), detail=f"row {i}, shape {cfg['shape']}")
        env.claim('model_called_once_with_n_rows', len(pred.inputs) == 1 and pred.inputs[0].shape == (n, cfg['d']))
        # identical to one-at-a-time calls (the model computes rows independently)
        single_shape = {'(n,)': '(1,)', '(n,1)': '(1,1)'}.get(cfg['shape'], '(1,' + cfg['shape'][3:])
        w1, pred1, tok1 = _make(env, dict(cfg, shape=single_shape), list(names) if cfg['named'] else None)
        try:
            for i in range(n):
                o1 = guarded(env, 'call_dict', w1, xs[i])
                ok = isinstance(o1, dict) and isinstance(out[i], dict) and list(o1.keys()) == list(out[i].keys())
                env.claim('batch_equals_one_at_a_time:keys', ok, detail=f"row {i}: batch {list(out[i].keys())} vs single "
                                                                        f"{list(o1.keys()) if isinstance(o1, dict) else o1}")
                if ok:
                    env.claim('batch_equals_one_at_a_time:values', And(*[eq(o1[k], out[i][k]) for k in o1]))
        finally:
            _restore(tok1)
    finally:
        _restore(tok)


def _routing(env, cfg):
    """with feature names: only those features reach the model, in that order, whatever the key order of the input"""
    d = cfg['d']
    names = names_for(cfg.get('names', 'str'), d)
    # the feature names are supplied in an arbitrary order (not necessarily sorted): that order is the model's column order
    name_orders = list(itertools.permutations(names))
    names = list(name_orders[env.choose(len(name_orders), label='order_of_the_supplied_feature_names')])
    extra = 'zz_unexplained'
    cfgw = dict(cfg, shape='(1,)')
    w, pred, tok = guarded(env, 'constructor_with_feature_names', _make, env, cfgw, list(names))
    try:
        x = sym_row(env, names, 'x')
        x[extra] = env.real('x_extra')
        keys = list(x.keys())
        perms = list(itertools.permutations(keys))
        order = perms[env.choose(len(perms), label='key_order')]
        xin = {k: x[k] for k in order}
        out = guarded(env, 'call_dict', w, xin)
        arr = pred.inputs[-1]
        env.claim('only_named_features_reach_model_in_that_order',
                  arr.shape == (1, d) and all(same_term(arr[0, j], x[f]) for j, f in enumerate(names)))
        ref = {'output': pred.val([x[f] for f in names], 0)}
        _same_dict(env, 'result_independent_of_key_order', out, ref)
        x_b = sym_row(env, names, 'xb')
        x_b_in = {k: x_b[k] for k in reversed(list(x_b.keys()))}
        out_b = guarded(env, 'call_dict', w, x_b_in)
        _same_dict(env, 'second_call_uses_the_second_input', out_b, {'output': pred.val([x_b[f] for f in names], 0)})
        outs = guarded(env, 'call_list', w, [xin, x])
        arr2 = pred.inputs[-1]
        env.claim('batch_rows_routed_the_same_way', arr2.shape == (2, d) and
                  all(same_term(arr2[i, j], x[f]) for i in range(2) for j, f in enumerate(names)))
        # without feature names the values are passed in the order of the dict
        w2, pred2, tok2 = _make(env, cfgw, None)
        try:
            x2 = {k: xin[k] for k in order if k != extra}
            guarded(env, 'call_dict', w2, x2)
            a = pred2.inputs[-1]
            env.claim('unnamed_wrapper_uses_dict_order', a.shape == (1, d) and all(same_term(a[0, j], x2[k]) for j, k in enumerate(x2)))
        finally:
            _restore(tok2)
    finally:
        _restore(tok)


def _river(env, cfg):
    outs = []

    def model(x):
        return outs.pop(0)
    w = RiverWrapper(model)
    x = {'f': env.real('x')}
    d_out = {'a': env.real('pa'), 'b': env.real('pb')}
    outs.append(d_out)
    got = guarded(env, 'river_dict', w, x)
    env.claim('dict_output_passed_through', got is d_out or (list(got.keys()) == ['a', 'b'] and all(same_term(got[k], d_out[k]) for k in d_out)))
    v = env.real('v')
    outs.append(v)
    got = guarded(env, 'river_float', w, x)
    _same_dict(env, 'numeric_output_under_default_label', got, {'output': v})
    outs.append(3)
    got = guarded(env, 'river_int', w, x)
    env.claim('int_output_becomes_float', list(got.keys()) == ['output'] and got['output'] == 3.0 and isinstance(got['output'], float))
    expected_seen = []
    for lab in ['cat', 'dog', 'cat', 'emu']:
        outs.append(lab)
        got = guarded(env, 'river_label', w, x)
        if lab not in expected_seen:
            expected_seen.append(lab)
        env.claim('one_hot_over_labels_seen_so_far',
                  set(got.keys()) == set(expected_seen) and all(got[l] == (1.0 if l == lab else 0.0) for l in expected_seen),
                  detail=f"label {lab!r} after {expected_seen}")
    # list input with string labels: row i is one-hot over the labels seen up to and including row i,
    # i.e. exactly what one-at-a-time calls give (the model computes rows independently)
    for labels in (['cat', 'dog'], ['cat', 'dog', 'cat', 'emu'], ['dog', 'dog', 'cat']):
        wb, ws = RiverWrapper(model), RiverWrapper(model)
        outs.extend(labels)
        batch = guarded(env, 'river_label_list', wb, [x for _ in labels])
        outs.extend(labels)
        single = [guarded(env, 'river_label_single', ws, x) for _ in labels]
        env.claim('label_batch_equals_one_at_a_time', isinstance(batch, list) and len(batch) == len(labels) and
                  all(b == s and list(b.keys()).sort() == list(s.keys()).sort() for b, s in zip(batch, single)),
                  detail=f"labels {labels}: batch {batch} vs single {single}")
        seen = []
        for lab, b in zip(labels, batch):
            if lab not in seen:
                seen.append(lab)
            env.claim('label_batch_row_one_hot_over_labels_seen_so_far', set(b.keys()) == set(seen) and
                      all(b[l] == (1.0 if l == lab else 0.0) for l in seen), detail=f"labels {labels}")
    w2 = RiverWrapper(model)
    v1, v2 = env.real('v1'), env.real('v2')
    outs.extend([v1, v2])
    got = guarded(env, 'river_list', w2, [x, x])
    env.claim('list_input_gives_list_in_order', isinstance(got, list) and len(got) == 2)
    if isinstance(got, list) and len(got) == 2:
        _same_dict(env, 'list_row0', got[0], {'output': v1})
        _same_dict(env, 'list_row1', got[1], {'output': v2})


def _dispatch(env, cfg):
    import warnings
    from sklearn.linear_model import LinearRegression
    from sklearn.tree import DecisionTreeClassifier
    from river.linear_model import LinearRegression as RLR
    from river.tree import HoeffdingTreeClassifier
    with warnings.catch_warnings():
        warnings.simplefilter('ignore')
        sk = LinearRegression()
        env.claim('sklearn_predict_wrapped', isinstance(validate_model_function(sk.predict), SklearnWrapper))
        dt = DecisionTreeClassifier()
        env.claim('sklearn_predict_proba_wrapped', isinstance(validate_model_function(dt.predict_proba), SklearnWrapper))
        rv = RLR()
        env.claim('river_predict_one_wrapped', isinstance(validate_model_function(rv.predict_one), RiverWrapper))
        ht = HoeffdingTreeClassifier()
        env.claim('river_predict_proba_one_wrapped', isinstance(validate_model_function(ht.predict_proba_one), RiverWrapper))
        w = SklearnWrapper(sk.predict)
        env.claim('wrapper_instance_returned_unchanged', validate_model_function(w) is w)
        rw = RiverWrapper(rv.predict_one)
        env.claim('river_wrapper_instance_returned_unchanged', validate_model_function(rw) is rw)

        def plain(x):
            return {'output': 0.0}
        env.claim('plain_function_returned_unchanged', validate_model_function(plain) is plain)
        env.claim('wrapped_function_is_the_given_bound_method', validate_model_function(sk.predict)._prediction_function == sk.predict)
        for validate in (validate_model_function, _validate_model_function_module_level):
            # two different bound methods of ONE model object: each is wrapped for itself, in either order
            dt2, ht2 = DecisionTreeClassifier(), HoeffdingTreeClassifier()
            for a, b in ((dt2.predict, dt2.predict_proba), (ht2.predict_proba_one, ht2.predict_one)):
                wa, wb = validate(a), validate(b)
                env.claim('each_bound_method_of_a_model_gets_its_own_wrapper',
                          wa is not wb and wa._prediction_function == a and wb._prediction_function == b,
                          detail=f"{a.__name__} / {b.__name__}")
            # a Wrapper instance is returned unchanged whatever else it offers (helper methods named like estimator methods)

            class HelpfulWrapper(Wrapper):
                def __call__(self, x):
                    return {'output': 1.0}

                def predict(self, x):
                    return 'decoy'
                predict_one = predict_proba = predict_proba_one = predict
            hw = HelpfulWrapper(lambda x: x, None)
            env.claim('wrapper_subclass_with_helper_methods_returned_unchanged', validate(hw) is hw)
            env.claim('plain_function_returned_unchanged', validate(plain) is plain)
            env.claim('wrapper_instance_returned_unchanged', validate(w) is w and validate(rw) is rw)
        try:
            import torch
        except ImportError:
            torch = None
        if torch is not None:
            lin = torch.nn.Linear(2, 1)
            tw = validate_model_function(lin)
            env.claim('torch_module_wrapped', isinstance(tw, TorchWrapper) and tw._prediction_function is lin)
            env.notes['torch_dispatch'] = 'executed with real torch'
        else:
            env.notes['torch_dispatch'] = 'torch import blocked in this run (set SYMX_WITH_TORCH=1); dispatch on torch modules not executed'


def _typed_rows(env, cfg):
    """batches whose rows hold different concrete Python / NumPy types (ints first and floats later, bools first, a NumPy
    float32 row): every row reaches the model with its own values, exactly as in one-at-a-time calls"""
    import numpy as np
    names = names_for('str', cfg['d'])
    batches = [
        [{'f0': 1, 'f1': 2}, {'f0': 0.5, 'f1': 1.75}, {'f0': 3, 'f1': 4}],
        [{'f0': True, 'f1': False}, {'f0': 3, 'f1': 0.25}],
        [{'f0': np.float32(0.5), 'f1': np.float32(2.0)}, {'f0': 1e-3, 'f1': 7}],
        [{'f0': 2, 'f1': 3}, {'f0': 2 ** 40 + 0.5, 'f1': -0.125}],
    ]
    for bi, rows in enumerate(batches):
        w, pred, tok = _make(env, dict(cfg, shape='(n,)'), list(names) if cfg['named'] else None)
        try:
            out = guarded(env, 'call_list', w, rows)
            got = pred.inputs[-1]
            env.claim('typed_batch_rows_reach_the_model_unchanged',
                      got.shape == (len(rows), len(names)) and all(float(got[i, j]) == float(rows[i][f])
                                                                   for i in range(len(rows)) for j, f in enumerate(names)),
                      detail=f"batch {bi}: model received {got.tolist()} for rows {rows}")
            w1, pred1, tok1 = _make(env, dict(cfg, shape='(1,)'), list(names) if cfg['named'] else None)
            try:
                for i, r in enumerate(rows):
                    o1 = guarded(env, 'call_dict', w1, r)
                    ok = isinstance(out, list) and len(out) == len(rows) and list(o1.keys()) == list(out[i].keys())
                    env.claim('typed_batch_equals_one_at_a_time', ok and And(*[eq(o1[k], out[i][k]) for k in o1]),
                              detail=f"batch {bi} row {i}")
            finally:
                _restore(tok1)
        finally:
            _restore(tok)

META['explanation'] += ' The same input is evaluated again after the model changed (no caching); dispatch through both validator entry points: two bound methods of one model, Wrapper subclass with helper methods.'
