#!/bin/bash
# offline setup: overlay venv on /venv with z3-solver, cvc5, crosshair-tool from the local wheelhouse
set -e
here="$(cd "$(dirname "$0")" && pwd)"
cd "$here"
if [ ! -x .venv/bin/python ]; then
  /venv/bin/python -m venv .venv
fi
sp="$(.venv/bin/python -c 'import sysconfig; print(sysconfig.get_paths()["purelib"])')"
echo "import site; site.addsitedir('/venv/lib/python3.12/site-packages')" > "$sp/_base_venv.pth"
.venv/bin/python -c "import z3, cvc5, crosshair" 2>/dev/null || \
  PIP_NO_INDEX=1 .venv/bin/pip install -q --no-index --find-links /opt/veriftools/wheels z3-solver cvc5 crosshair-tool
.venv/bin/python -c "import z3, ixai, numpy, river; print('setup ok: z3', z3.get_version_string())"
.venv/bin/python selftest/engine_validation.py | tail -1
