"""Environment stubs: RNG, numpy / math / float shims, uninterpreted model & loss, fault plans.

Every stub is part of the claim of the checks that use it (DESIGN 1.5).  Shims are installed as
module globals of the ixai modules under test (``np``, ``random``, ``math``, ``float``) and removed
afterwards; /repo is never edited.
"""
from __future__ import annotations

import contextlib
import math as _real_math
import random as _real_random
import sys
import types
import warnings
from fractions import Fraction

import numpy as _np
import z3

from . import core
from .core import Sym, SymBool, NonFinite, HarnessError, EndPath, lift, to_real, cur

_real_float = float


# --------------------------------------------------------------------------------------------
# RNG stubs


class UniformSym(Sym):
    """A fresh draw u ~ U(0,1).  ``u <= c`` carries probability c (when c does not depend on u)."""
    __slots__ = ()

    def _cmp(self, o, f):
        r = Sym._cmp(self, o, f)
        if isinstance(r, SymBool) and not isinstance(o, UniformSym):
            # classify the comparison by probing f on constants
            lo = f(z3.RealVal(0), z3.RealVal(1))   # 0 ? 1
            is_le_like = z3.is_true(z3.simplify(lo))   # '<' or '<='
            eq_like = z3.is_true(z3.simplify(f(z3.RealVal(1), z3.RealVal(1))))
            gt_like = z3.is_true(z3.simplify(f(z3.RealVal(1), z3.RealVal(0))))
            if is_le_like and not gt_like:       # u < c or u <= c  -> P = clamp(c)
                r.prob = _clamp01(o)
            elif gt_like and not is_le_like:     # u > c or u >= c  -> P = 1 - clamp(c)
                r.prob = 1 - _clamp01(o)
            _ = eq_like
        return r


def _clamp01(c):
    if isinstance(c, Sym):
        return Sym(z3.If(to_real(c.t) < 0, z3.RealVal(0), z3.If(to_real(c.t) > 1, z3.RealVal(1), to_real(c.t))))
    c = Fraction(c) if not isinstance(c, float) else Fraction(c)
    return max(Fraction(0), min(Fraction(1), c))


class RandomStub:
    """Stands in for the ``random`` module inside ixai modules.

    random()      -> fresh symbol u, 0 < u < 1 (concrete replay: value from the model)
    randrange(n)  -> choose over the requested range (fork, weight 1/n)
    randint(a,b)  -> choose over a..b inclusive
    choices(...)  -> choose proportional to concrete weights
    Every call is logged (kind, requested range) for the distribution / reproducibility checks.
    """

    def __init__(self, env, tag='py'):
        self.env = env
        self.tag = tag
        self.calls = []       # (kind, range/name, outcome)
        self._n = 0

    def random(self):
        name = f"u_{self.tag}_{self._n}"
        self._n += 1
        env = self.env
        if env.mode == 'sym':
            u = UniformSym(z3.Real(name))
            env.pc.append(z3.And(u.t > 0, u.t < 1))
        else:
            u = env.real(name)
            if isinstance(u, Fraction) and env.numeric != 'fraction':
                u = _real_float(u)
            if not (0 < u < 1):
                u = Fraction(1, 2) if isinstance(u, Fraction) else 0.5
        self.calls.append(('random', name, u))
        return u

    def randrange(self, start, stop=None, step=1):
        if stop is None:
            start, stop = 0, start
        if isinstance(start, Sym) or isinstance(stop, Sym):
            raise HarnessError("symbolic range for randrange")
        n = len(range(start, stop, step))
        if n <= 0:
            self.calls.append(('randrange', (start, stop), None))
            raise ValueError("empty range for randrange()")
        i = self.env.choose(n, label=('randrange', start, stop))
        v = range(start, stop, step)[i]
        self.calls.append(('randrange', (start, stop), v))
        return v

    def randint(self, a, b):
        if b < a:
            self.calls.append(('randint', (a, b), None))
            raise ValueError("empty range for randint()")
        i = self.env.choose(b - a + 1, label=('randint', a, b))
        self.calls.append(('randint', (a, b), a + i))
        return a + i

    def choice(self, seq):
        i = self.randrange(len(seq))
        return seq[i]

    def getrandbits(self, k):
        if isinstance(k, Sym) or k < 0 or k > 6:
            raise HarnessError("getrandbits only modelled for 0..6 bits")
        v = self.env.choose(2 ** k, label=('getrandbits', k))
        self.calls.append(('getrandbits', k, v))
        return v

    def choices(self, population, weights=None, *, cum_weights=None, k=1):
        population = list(population)
        if weights is None:
            ws = None
        else:
            ws = [Fraction(w) for w in weights]
        out = []
        for _ in range(k):
            i = self.env.choose(len(population), label=('choices', len(population)), weights=ws)
            out.append(population[i])
        self.calls.append(('choices', len(population), out))
        return out

    def seed(self, *a, **k):
        self.calls.append(('seed', a, None))

    def shuffle(self, seq):
        """in-place uniform shuffle (fork over all orders)"""
        items = list(seq)
        n = len(items)
        idx = list(range(n))
        order = []
        for j in range(n):
            i = self.env.choose(n - j, label=('shuffle', n, j))
            order.append(idx.pop(i))
        self.calls.append(('shuffle', n, tuple(order)))
        for pos, src in enumerate(order):
            seq[pos] = items[src]

    def __getattr__(self, name):
        raise HarnessError(f"random.{name} is not modelled by the RNG stub")


class NpRandomStub:
    def __init__(self, env):
        self.env = env
        self.calls = []

    def permutation(self, seq):
        """every permutation of the *real numpy coercion* of seq (fork, weight 1/d!)"""
        if isinstance(seq, int):
            arr = _np.arange(seq)
        else:
            arr = _np.asarray(list(seq))   # real coercion: mixed str/int names become np.str_
        n = len(arr)
        idx = list(range(n))
        order = []
        for j in range(n):
            i = self.env.choose(n - j, label=('perm', n, j))
            order.append(idx.pop(i))
        self.calls.append(('permutation', n, tuple(order)))
        return arr[order]

    def seed(self, *a, **k):
        self.calls.append(('seed', a, None))

    def shuffle(self, seq):
        """in-place uniform shuffle of a mutable sequence (fork over all orders)"""
        items = list(seq)
        n = len(items)
        idx = list(range(n))
        order = []
        for j in range(n):
            i = self.env.choose(n - j, label=('shuffle', n, j))
            order.append(idx.pop(i))
        self.calls.append(('shuffle', n, tuple(order)))
        for pos, src in enumerate(order):
            seq[pos] = items[src]

    def __getattr__(self, name):
        raise HarnessError(f"np.random.{name} is not modelled by the RNG stub")


# --------------------------------------------------------------------------------------------
# numpy / math / float shims


def _is_symbolic(x):
    return isinstance(x, (Sym, NonFinite))


def _flatten(a):
    if isinstance(a, _np.ndarray):
        return list(a.flatten())
    if isinstance(a, (list, tuple)):
        out = []
        for v in a:
            out.extend(_flatten(v) if isinstance(v, (list, tuple, _np.ndarray)) else [v])
        return out
    return [a]


class _NaNMarker:
    """placeholder for np.nan inside object arrays of the shim"""
    def __repr__(self): return 'nan'


def _is_nan_entry(v):
    if isinstance(v, NonFinite):
        return v.kind == 'nan'
    if isinstance(v, Sym):
        return False
    try:
        return v != v
    except Exception:
        return False


def _trunc(v):
    """C-style float -> int conversion (toward zero) of a symbolic real"""
    t = v.t
    if t.sort() == z3.IntSort():
        return Sym(t, 'np')
    return Sym(z3.If(t >= 0, z3.ToInt(t), -z3.ToInt(-t)), 'np')


class ModelArray(_np.ndarray):
    """object-dtype ndarray that remembers the dtype the real array would have ('int' | 'float') and coerces
    stored elements like NumPy does: a real stored into an integer array is truncated toward zero."""
    mdtype = None

    def __array_finalize__(self, obj):
        self.mdtype = None if obj is None or not isinstance(obj, ModelArray) or obj.shape != self.shape else obj.mdtype

    def _coerce(self, v):
        if self.mdtype == 'int':
            if isinstance(v, Sym):
                return _trunc(v)
            if isinstance(v, NonFinite):
                raise ValueError("cannot convert float NaN/inf to integer")
            return int(v)
        if self.mdtype == 'float':
            if isinstance(v, Sym):
                return Sym(to_real(v.t), 'np')
        if self.mdtype == 'bool':
            if isinstance(v, (Sym, NonFinite)):
                raise HarnessError("symbolic value stored into a boolean array")
            return bool(v)
        return v

    def __setitem__(self, key, value):
        if self.mdtype is not None:
            if isinstance(value, (_np.ndarray, list, tuple)):
                flat = _np.empty(len(value), dtype=object) if not isinstance(value, _np.ndarray) else None
                if flat is not None and all(not isinstance(v, (list, tuple, _np.ndarray)) for v in value):
                    for i, v in enumerate(value):
                        flat[i] = self._coerce(v)       # a row assigned into a typed array is cast element by element
                    value = flat
            else:
                value = self._coerce(value)
        super().__setitem__(key, value)


def _model_array(values, shape, mdtype):
    arr = _np.empty(shape, dtype=object).view(ModelArray)
    arr.mdtype = mdtype
    flat = arr.reshape(-1)
    flat.mdtype = mdtype
    for i in range(flat.shape[0]):
        flat[i] = values[i] if isinstance(values, list) else values
    return arr


def _mdtype_of(values, dtype=None):
    if dtype is not None:
        k = _np.dtype(dtype).kind
        return 'bool' if k == 'b' else ('int' if k in 'iu' else ('float' if k == 'f' else None))
    kinds = set()
    for v in values:
        if isinstance(v, Sym):
            kinds.add('int' if v.is_int else 'float')
        elif isinstance(v, (bool, int, _np.integer)):
            kinds.add('int')
        elif isinstance(v, (float, _np.floating, Fraction)):
            kinds.add('float')
        else:
            return None
    return 'int' if kinds == {'int'} else ('float' if kinds else None)


class NumpyShim:
    """Delegates to real NumPy except for the handful of functions that would realise a symbol."""

    def __init__(self, env, np_random=None):
        self._env = env
        self.random = np_random if np_random is not None else _np.random
        self._log = _LogUF(env, 'log')
        self._exp = _LogUF(env, 'exp')

    def __getattr__(self, name):
        return getattr(_np, name)   # includes np.NaN -> AttributeError on NumPy 2, as in reality

    # -- constructors
    def array(self, obj, *a, **k):
        flat = _flatten(obj)
        if any(_is_symbolic(v) for v in flat) or self._env.mode == 'sym' and k.pop('_force_object', False):
            return _np.array(obj, dtype=object)
        arr = _np.array(obj, *a, **k)
        if self._env.mode == 'sym' and arr.dtype.kind == 'f':
            # a float buffer that will later receive symbols: keep payload boxed
            return arr.astype(object)
        return arr

    def asarray(self, obj, *a, **k):
        flat = _flatten(obj)
        if any(_is_symbolic(v) for v in flat):
            return _np.array(obj, dtype=object)
        return _np.asarray(obj, *a, **k)

    def full(self, shape, fill_value, dtype=None, **k):
        if self._env.mode != 'sym':
            return _np.full(shape, fill_value, dtype=dtype, **k)
        shp = (shape,) if isinstance(shape, int) else tuple(shape)
        return _model_array(fill_value, shp, _mdtype_of([fill_value], dtype))

    def zeros(self, shape, dtype=float, **k):
        if self._env.mode != 'sym':
            return _np.zeros(shape, dtype=dtype, **k)
        shp = (shape,) if isinstance(shape, int) else tuple(shape)
        md = _mdtype_of([], dtype)
        return _model_array(False if md == 'bool' else (0 if md == 'int' else 0.0), shp, md)

    def ones(self, shape, dtype=float, **k):
        if self._env.mode != 'sym':
            return _np.ones(shape, dtype=dtype, **k)
        shp = (shape,) if isinstance(shape, int) else tuple(shape)
        md = _mdtype_of([], dtype)
        return _model_array(1 if md == 'int' else 1.0, shp, md)

    def empty(self, shape, dtype=float, **k):
        return self.zeros(shape, dtype=dtype)

    # -- reductions
    def mean(self, a, *args, **kwargs):
        flat = _flatten(a)
        if not any(_is_symbolic(v) for v in flat):
            return _np.mean(a, *args, **kwargs)
        if args or any(v is not None for v in kwargs.values()) and set(kwargs) - {'axis'}:
            raise HarnessError("np.mean with options is not modelled")
        tot = flat[0]
        for v in flat[1:]:
            tot = tot + v
        r = tot / len(flat)
        return r.as_np() if isinstance(r, Sym) else r

    def sum(self, a, *args, **kwargs):
        flat = _flatten(a)
        if not any(_is_symbolic(v) for v in flat):
            return _np.sum(a, *args, **kwargs)
        tot = flat[0]
        for v in flat[1:]:
            tot = tot + v
        return tot.as_np() if isinstance(tot, Sym) else tot

    def _nan_stats(self, a):
        flat = [v for v in _flatten(a) if not _is_nan_entry(v)]
        if not any(_is_symbolic(v) for v in flat):
            return None, flat
        n = len(flat)
        tot = flat[0]
        for v in flat[1:]:
            tot = tot + v
        mean = tot / n
        return mean, flat

    def nanmean(self, a, axis=None, **k):
        mean, flat = self._nan_stats(a)
        if mean is None:
            with warnings.catch_warnings():
                warnings.simplefilter('ignore')
                return _np.nanmean(_np.asarray(a, dtype=_real_float), axis=axis, **k)
        return mean.as_np()

    def nanvar(self, a, axis=None, **k):
        mean, flat = self._nan_stats(a)
        if mean is None:
            with warnings.catch_warnings():
                warnings.simplefilter('ignore')
                return _np.nanvar(_np.asarray(a, dtype=_real_float), axis=axis, **k)
        acc = None
        for v in flat:
            d = (v - mean)
            acc = d * d if acc is None else acc + d * d
        return (acc / len(flat)).as_np()

    def nanstd(self, a, axis=None, **k):
        mean, flat = self._nan_stats(a)
        if mean is None:
            with warnings.catch_warnings():
                warnings.simplefilter('ignore')
                return _np.nanstd(_np.asarray(a, dtype=_real_float), axis=axis, **k)
        var = self.nanvar(a)
        return self._env.sym_sqrt(var).as_np()

    # -- elementwise
    def exp(self, x):
        if isinstance(x, Sym):
            return self._exp.exp(x)
        return _np.exp(_real_float(x) if isinstance(x, Fraction) else x)

    def log(self, x):
        if isinstance(x, Sym):
            return self._log.log(x)
        return _np.log(_real_float(x) if isinstance(x, Fraction) else x)

    def floor(self, x):
        if isinstance(x, Fraction):
            x = _real_float(x)
        if isinstance(x, Sym):
            t = x.t
            if t.sort() == z3.IntSort():
                return Sym(t, 'np')
            return Sym(z3.ToReal(z3.ToInt(t)), 'np')   # value is integral, type stays float (np.float64)
        return _np.floor(x)

    def sqrt(self, x):
        if isinstance(x, Sym):
            return self._env.sym_sqrt(x, negative='error').as_np()
        return _np.sqrt(x)

    def abs(self, x):
        return abs(x) if isinstance(x, Sym) else _np.abs(x)

    def round(self, x, decimals=0, *a, **k):
        return x.__round__(decimals).as_np() if isinstance(x, Sym) else _np.round(x, decimals, *a, **k)

    def isclose(self, a, b, rtol=1e-05, atol=1e-08, equal_nan=False):
        """|a - b| <= atol + rtol * |b|  (a symbolic truth value: forks when used in a condition)"""
        if isinstance(a, NonFinite) or isinstance(b, NonFinite):
            return False
        if not isinstance(a, Sym) and not isinstance(b, Sym):
            return _np.isclose(a, b, rtol=rtol, atol=atol, equal_nan=equal_nan)
        bound = Fraction(atol) + Fraction(rtol) * abs(b if isinstance(b, Sym) else Fraction(b))
        diff = a - b if isinstance(a, Sym) else -(b - a)
        return (diff <= bound) & (diff >= -bound)

    def allclose(self, a, b, rtol=1e-05, atol=1e-08, equal_nan=False):
        return self.isclose(a, b, rtol, atol, equal_nan)

    def isnan(self, x):
        if isinstance(x, NonFinite):
            return x.kind == 'nan'
        if isinstance(x, Sym):
            return False
        return _np.isnan(x)


class _LogUF:
    """uninterpreted log / exp with the sign axioms instantiated at each call"""

    def __init__(self, env, which):
        self.env = env

    def _f(self, name):
        env = self.env
        f = env._uf_cache.get(name)
        if f is None:
            f = z3.Function(name, z3.RealSort(), z3.RealSort())
            env._uf_cache[name] = f
        return f

    def log(self, x):
        t = to_real(x.t)
        y = self._f('LOG')(t)
        self.env.pc.append(z3.And(z3.Implies(z3.And(t > 0, t < 1), y < 0),
                                  z3.Implies(t == 1, y == 0),
                                  z3.Implies(t > 1, y > 0)))
        return Sym(y, 'np')

    def exp(self, x):
        t = to_real(x.t)
        y = self._f('EXP')(t)
        self.env.pc.append(z3.And(y > 0,
                                  z3.Implies(t < 0, y < 1),
                                  z3.Implies(t == 0, y == 1),
                                  z3.Implies(t > 0, y > 1)))
        return Sym(y, 'np')


class MathShim:
    def __init__(self, env):
        self._env = env
        self._lg = _LogUF(env, 'log')

    def __getattr__(self, name):
        return getattr(_real_math, name)

    def sqrt(self, x):
        if isinstance(x, NonFinite):
            return x
        if isinstance(x, Sym):
            return self._env.sym_sqrt(x, negative='error').as_py()
        return _real_math.sqrt(x)

    def log(self, x, *a):
        if isinstance(x, Sym):
            if a:
                raise HarnessError("math.log with base not modelled")
            if self._env.branch(to_real(x.t) <= 0):
                raise ValueError("math domain error")
            return self._lg.log(x).as_py()
        return _real_math.log(x, *a)

    def exp(self, x):
        if isinstance(x, Sym):
            return self._lg.exp(x).as_py()
        return _real_math.exp(x)

    def fabs(self, x):
        return abs(x).as_py() if isinstance(x, Sym) else _real_math.fabs(x)

    def isnan(self, x):
        if isinstance(x, NonFinite):
            return x.kind == 'nan'
        if isinstance(x, Sym):
            return False
        return _real_math.isnan(x)

    def isfinite(self, x):
        if isinstance(x, NonFinite):
            return False
        if isinstance(x, Sym):
            return True
        return _real_math.isfinite(x)


class FloatShim:
    """module-global ``float`` replacement.

    float(Sym)      -> same value, python flavour
    float(ndarray)  -> asks *real* NumPy whether an array of that shape converts
                       (``float(np.zeros(shape))``) and returns the single (symbolic) element
    anything else   -> real float()
    """

    def __call__(self, x=0.0):
        if isinstance(x, Sym):
            return x.as_py()
        if isinstance(x, NonFinite):
            return x
        if isinstance(x, _np.ndarray) and x.dtype == object:
            probe = _np.zeros(x.shape)
            with warnings.catch_warnings():
                warnings.simplefilter('error', DeprecationWarning)
                try:
                    _real_float(probe)           # raises TypeError for shapes real NumPy refuses
                except DeprecationWarning:
                    pass                         # still converts on this NumPy (with a warning)
            v = x.reshape(-1)[0]
            if isinstance(v, Sym):
                return v.as_py()
            if isinstance(v, NonFinite):
                return v
            return _real_float(v)
        return _real_float(x)

    def __instancecheck__(self, inst):   # pragma: no cover
        return isinstance(inst, _real_float)


class IntShim:
    """module-global ``int`` replacement: int(Sym) -> truncation toward zero as a symbolic Python int (no forking);
    anything else -> real int()"""

    def __call__(self, x=0, *a):
        if isinstance(x, Sym) and not a:
            t = x.t
            tr = t if t.sort() == z3.IntSort() else z3.If(t >= 0, z3.ToInt(t), -z3.ToInt(-t))
            return Sym(tr, 'py')
        if isinstance(x, NonFinite):
            raise (ValueError("cannot convert float NaN to integer") if x.kind == 'nan'
                   else OverflowError("cannot convert float infinity to integer"))
        return _real_int(x, *a)

    def __instancecheck__(self, inst):   # pragma: no cover
        return isinstance(inst, _real_int)


_real_int = int


# --------------------------------------------------------------------------------------------
# patching ixai modules


IXAI_PREFIX = 'ixai'


@contextlib.contextmanager
def patched(env, modules=None, with_float=True, np_random=None, py_random=None, extra_modules=()):
    """Install shims as module globals of every loaded ixai module (or the given ones).
    extra_modules: further module names (e.g. river metric modules) whose ``math`` / ``random`` / ``np`` are shimmed too."""
    py_random = py_random if py_random is not None else RandomStub(env)
    np_random = np_random if np_random is not None else NpRandomStub(env)
    np_shim = NumpyShim(env, np_random)
    math_shim = MathShim(env)
    float_shim = FloatShim()
    int_shim = IntShim()
    saved = []
    mods = [m for name, m in list(sys.modules.items())
            if m is not None and (name == IXAI_PREFIX or name.startswith(IXAI_PREFIX + '.'))
            and (modules is None or name in modules)]
    mods += [sys.modules[name] for name in extra_modules if name in sys.modules]
    for m in mods:
        d = m.__dict__
        for attr, shim, real in (('np', np_shim, _np), ('random', py_random, _real_random),
                                 ('math', math_shim, _real_math)):
            if d.get(attr) is real:
                saved.append((d, attr, real, True))
                d[attr] = shim
        if with_float:
            had = 'float' in d
            saved.append((d, 'float', d.get('float'), had))
            d['float'] = float_shim
            had = 'int' in d
            saved.append((d, 'int', d.get('int'), had))
            d['int'] = int_shim
    ctx = types.SimpleNamespace(py_random=py_random, np_random=np_random, np=np_shim, math=math_shim)
    try:
        with warnings.catch_warnings():
            warnings.simplefilter('ignore')
            yield ctx
    finally:
        for d, attr, old, had in reversed(saved):
            if had:
                d[attr] = old
            else:
                d.pop(attr, None)


# --------------------------------------------------------------------------------------------
# uninterpreted model / loss


class UFModel:
    """Deterministic model: one uninterpreted function per output label over the read features.

    ``reads``   features the model depends on (default: all of ``features``)
    ``labels``  output labels (default ['output'])
    Logs every call (input dict as given) so harnesses can assert on what reached the model.
    """

    def __init__(self, env, features, labels=('output',), reads=None, name='M', flavor='py', faults=None,
                 varying_labels=False, memoise=False, optional=(), positional=False):
        self.env = env
        self.optional = set(optional)   # features read with x.get(f, 0): an observation may lack them
        self.positional = positional    # reads the VALUES of the input dict by position (like a wrapper without feature names)
        self.memoise = memoise          # a deterministic model may return the SAME dict object for the same input (cache)
        self._memo = {}
        self.returned = []              # (dict object handed out, snapshot of its content)
        self.features = list(features)
        self.reads = list(features if reads is None else reads)
        self.labels = list(labels)
        self.name = name
        self.flavor = flavor
        self.calls = []     # list of input dicts (shallow copies)
        self.faults = faults
        self.varying_labels = varying_labels   # the label set is an arbitrary (deterministic) function of the input
        self._labelsets = {}
        self._fs = {lab: env.uf(f"{name}_{_lab(lab)}", len(self.reads)) for lab in self.labels}

    def _key(self, x):
        out = []
        for f, v in self._args_named(x):
            out.append(('t', v.t.get_id()) if isinstance(v, Sym) else ('v', getattr(v, '_tag', None) or repr(v)))
        return tuple(out)

    def _args_named(self, x):
        if self.positional:
            return [(i, v) for i, v in enumerate(x.values())]
        return [(f, (x.get(f, 0) if f in self.optional else x[f])) for f in self.reads]

    def _args(self, x):
        vals = [v for _f, v in self._args_named(x)]
        if self.positional:
            if len(vals) != len(self.reads):
                raise HarnessError(f"positional model expects {len(self.reads)} values, got {len(vals)}")
        return vals

    def labels_for(self, x):
        if not self.varying_labels or len(self.labels) < 2:
            return self.labels
        k = self._key(x)
        if k not in self._labelsets:
            keep = [self.labels[0]]
            for lab in self.labels[1:]:
                if self.env.choose(2, label=('emits', str(lab))) == 0:
                    keep.append(lab)
            self._labelsets[k] = keep
        return self._labelsets[k]

    def _one(self, x):
        if self.faults is not None:
            self.faults.tick('model')
        self.calls.append(dict(x))
        args = self._args(x)
        if self.memoise:
            k = self._key(x)
            if k in self._memo:
                return self._memo[k]
        out = {lab: self._fs[lab](*args, flavor=self.flavor) for lab in self.labels_for(x)}
        self.returned.append((out, dict(out)))
        if self.memoise:
            self._memo[self._key(x)] = out
        return out

    def outputs_intact(self):
        """no prediction dict handed to the library was modified by it"""
        from .core import same_term
        return all(list(o.keys()) == list(snap.keys()) and all(same_term(o[k], snap[k]) for k in snap)
                   for o, snap in self.returned)

    def __call__(self, x):
        if isinstance(x, dict):
            return self._one(x)
        return [self._one(xi) for xi in x]

    # The model function handed to the library is THIS callable.  An estimator-like object also has helper methods with
    # the usual names; a library that guesses one of them instead of calling the function it was given evaluates another model.
    def _decoy(self, *a, **k):
        self.env.fail('model_function_replaced_by_a_guessed_method',
                      'the library called predict / predict_one / predict_proba(_one) of a callable model object instead of the '
                      'callable it was given')
        raise EndPath('decoy method of the model object called')
    predict = predict_one = predict_proba = predict_proba_one = _decoy

    def value(self, x, label='output'):
        """oracle access: M_label(x) without logging"""
        return self._fs[label](*self._args(x), flavor=self.flavor)

    def out(self, x):
        return {lab: self.value(x, lab) for lab in self.labels_for(x)}


def _lab(lab):
    return str(lab).replace(' ', '_')


class UFLoss:
    """Deterministic loss L(y, prediction dict).  Accepts ONLY the documented positional call."""

    def __init__(self, env, name='L', flavor='py', faults=None):
        self.env = env
        self.name = name
        self.flavor = flavor
        self.calls = []
        self.faults = faults

    def __call__(self, y_true, y_pred, /):
        if self.faults is not None:
            self.faults.tick('loss')
        self.calls.append((y_true, dict(y_pred)))
        return self.value(y_true, y_pred)

    def value(self, y_true, y_pred):
        labs = sorted(y_pred.keys(), key=lambda k: (type(k).__name__, str(k)))
        if self.flavor == 'int':       # an integer-typed loss (0-1 loss, absolute error on integer data, ...)
            f = self.env.uf(f"{self.name}i_{'_'.join(_lab(l) for l in labs) or 'empty'}", 1 + len(labs), int_result=True)
            return f(y_true, *[y_pred[l] for l in labs], flavor='py')
        f = self.env.uf(f"{self.name}_{'_'.join(_lab(l) for l in labs) or 'empty'}", 1 + len(labs))
        return f(y_true, *[y_pred[l] for l in labs], flavor=self.flavor)


class Boom(Exception):
    """the injected callback failure"""


class BoomStop(StopIteration):
    """injected failure of a type that iterator protocols treat as 'exhausted'"""


class BoomKey(KeyError):
    pass


class BoomAttr(AttributeError):
    pass


class BoomZero(ZeroDivisionError):
    pass


class BoomValue(ValueError):
    pass


BOOMS = {'Exception': Boom, 'StopIteration': BoomStop, 'KeyError': BoomKey, 'AttributeError': BoomAttr,
         'ZeroDivisionError': BoomZero, 'ValueError': BoomValue}
BOOM_TYPES = tuple(BOOMS.values())


class FaultPlan:
    """'the k-th callback invocation raises' with k symbolic: every tick forks on k == i."""

    def __init__(self, env, name='crash_k', enabled=True, exc='Exception', lo=0):
        self.env = env
        self.exc = BOOMS[exc]
        self.enabled = enabled
        self.k = env.int(name) if enabled else None
        self.i = 0
        self.fired_at = None
        self.sites = []
        self.lo = lo            # only invocations #lo, #lo+1, ... may fail (long runs: the early ones are covered elsewhere)
        if enabled:
            env.assume(self.k >= lo)

    def tick(self, site):
        i = self.i
        self.i += 1
        self.sites.append(site)
        if not self.enabled or self.fired_at is not None or i < self.lo:
            return
        hit = (self.k == i)
        if bool(hit):
            self.fired_at = (i, site)
            raise self.exc(f"injected failure at callback #{i} ({site})")


# --------------------------------------------------------------------------------------------
# process-wide mutable state of the library (mutable default arguments): restored before every path

_IMMUTABLE = (type(None), bool, int, float, complex, str, bytes, frozenset, type, types.FunctionType, types.BuiltinFunctionType)


def _is_immutable(v):
    if isinstance(v, _IMMUTABLE):
        return True
    if isinstance(v, tuple):
        return all(_is_immutable(x) for x in v)
    return False


def snapshot_mutable_defaults(prefix=IXAI_PREFIX):
    """Finds every function of the library whose default arguments hold a mutable object (evaluated once at import and
    therefore shared process-wide) and returns a hook that re-creates pristine copies.  Without it such an object would
    leak state from one explored path into the next; with it, each path starts from the state of a fresh interpreter
    while the sharing BETWEEN objects created within one path (what a real program sees) is kept."""
    import copy
    import inspect
    found = []
    for name, m in list(sys.modules.items()):
        if m is None or not (name == prefix or name.startswith(prefix + '.')):
            continue
        for obj in list(vars(m).values()):
            funcs = []
            if inspect.isfunction(obj) and obj.__module__ == name:
                funcs.append(obj)
            elif inspect.isclass(obj) and obj.__module__ == name:
                funcs += [f for f in vars(obj).values() if inspect.isfunction(f)]
                funcs += [f.__func__ for f in vars(obj).values() if isinstance(f, (staticmethod, classmethod))]
            for f in funcs:
                d, kd = f.__defaults__, f.__kwdefaults__
                if (d and not all(_is_immutable(v) for v in d)) or (kd and not all(_is_immutable(v) for v in kd.values())):
                    found.append((f, copy.deepcopy(d), copy.deepcopy(kd)))

    # mutable containers stored on classes or as module globals are process-wide state as well
    import collections
    shared = []
    containers = (list, dict, set, collections.deque, collections.OrderedDict, collections.defaultdict)
    for name, m in list(sys.modules.items()):
        if m is None or not (name == prefix or name.startswith(prefix + '.')) or name.startswith(prefix + '.visualization'):
            continue        # plotting constants (colour lists) take no part in computing results
        for attr, val in list(vars(m).items()):
            if attr.startswith('__') or not isinstance(val, containers) or isinstance(val, type):
                continue
            shared.append((m, attr, copy.deepcopy(val), f"{name}.{attr}"))
        for obj in list(vars(m).values()):
            if inspect.isclass(obj) and obj.__module__ == name:
                for attr, val in list(vars(obj).items()):
                    if attr.startswith('__') or not isinstance(val, containers):
                        continue
                    shared.append((obj, attr, copy.deepcopy(val), f"{name}.{obj.__qualname__}.{attr}"))

    # generator objects created at import time (module / class level) are private entropy sources
    generators = []
    gen_types = (_real_random.Random, _np.random.Generator, _np.random.RandomState)
    for name, m in list(sys.modules.items()):
        if m is None or not (name == prefix or name.startswith(prefix + '.')):
            continue
        for attr, val in list(vars(m).items()):
            if isinstance(val, gen_types):
                generators.append(f"{name}.{attr}")
        for obj in list(vars(m).values()):
            if inspect.isclass(obj) and obj.__module__ == name:
                generators += [f"{name}.{obj.__qualname__}.{a}" for a, v in vars(obj).items() if isinstance(v, gen_types)]

    # memoising decorators (functools.lru_cache / cache) keep results - possibly whole library objects - for the life of the process
    caches = []
    for name, m in list(sys.modules.items()):
        if m is None or not (name == prefix or name.startswith(prefix + '.')):
            continue
        for attr, obj in list(vars(m).items()):
            if callable(getattr(obj, 'cache_clear', None)) and getattr(obj, '__module__', name) == name:
                caches.append((obj, f"{name}.{attr}"))
            elif inspect.isclass(obj) and obj.__module__ == name:
                for a, v in list(vars(obj).items()):
                    v = getattr(v, '__func__', v)
                    if callable(getattr(v, 'cache_clear', None)):
                        caches.append((v, f"{name}.{obj.__qualname__}.{a}"))

    def reset():
        for c, _n in caches:
            c.cache_clear()         # every explored path (and every replay) starts like a fresh interpreter
        for f, d, kd in found:
            if d is not None:
                f.__defaults__ = copy.deepcopy(d)
            if kd is not None:
                f.__kwdefaults__ = copy.deepcopy(kd)
        for owner, attr, val, _n in shared:
            setattr(owner, attr, copy.deepcopy(val))
    reset.functions = [f"{f.__module__}.{f.__qualname__}" for f, _d, _k in found]
    reset.shared_containers = [n for _o, _a, _v, n in shared]
    reset.import_time_generators = generators
    reset.memoised_functions = [n for _c, n in caches]
    return reset
