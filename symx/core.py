"""symx core: symbolic execution of the shipped Python by proxy values.

The real /repo code is called with ``Sym`` numbers whose value is a z3 term.  ``bool()`` on a
symbolic comparison asks the solver which outcomes are feasible under the current path condition
and forks (deterministic re-execution with a decision trace, depth first).  ``choose(n)`` is a
nondeterministic n-way fork used by the RNG stubs; it carries an exact probability weight.

Two environments share one harness API:

* ``SymEnv``  - values are z3 terms, ``claim`` = validity query ``pc /\\ not claim`` (unsat = discharged)
* ``ConcEnv`` - values are concrete (Fraction / float / numpy scalars) taken from a solver model
                or from a replay file; ``claim`` is evaluated by plain Python.  Used to replay every
                counterexample against the real code before it is reported.
"""
from __future__ import annotations

import itertools
import math
import os
import time
from fractions import Fraction

import z3

# --------------------------------------------------------------------------------------------
# exceptions


class Abort(BaseException):
    """Path is infeasible / cut.  BaseException so product code's ``except Exception`` cannot eat it."""


class EndPath(Abort):
    """Finish the current path early after an execution-level failure was recorded (counts as completed)."""


class HarnessError(Exception):
    """The harness or engine misbehaved (never reported as success or violation)."""


class Inconclusive(Exception):
    """Solver said unknown / timeout for an obligation."""


_CANARY_MS = int(os.environ.get('VERIF_CANARY_MS', '10000'))     # short per-path attempt of a canary query


class PathLimit(HarnessError):
    pass


class ComplexResult(ArithmeticError):
    """x ** 0.5 for x < 0: real Python would return a complex number."""


CUR = None  # the active environment (SymEnv or ConcEnv)
PATH_RESET_HOOKS = []   # callables run before every path / concrete replay (e.g. restore process-wide mutable state)


def _run_reset_hooks():
    for h in PATH_RESET_HOOKS:
        h()


def cur():
    if CUR is None:
        raise HarnessError("no active symx environment")
    return CUR


# --------------------------------------------------------------------------------------------
# non-finite marker (NumPy-scalar division by zero)


class NonFinite:
    """Result of a NumPy-flavoured division by zero (inf or nan).  Absorbing under arithmetic."""
    __array_priority__ = 2000
    flavor = 'np'

    def __init__(self, kind):
        self.kind = kind  # 'nan' | 'inf'

    def _abs(self, *_a, **_k):
        return NonFinite(self.kind if self.kind == 'nan' else 'inf')
    __add__ = __radd__ = __sub__ = __rsub__ = __mul__ = __rmul__ = _abs
    __truediv__ = __rtruediv__ = __pow__ = __rpow__ = __neg__ = __pos__ = __abs__ = _abs

    def __lt__(self, o): return False
    __le__ = __gt__ = __ge__ = __lt__

    def __eq__(self, o): return False

    def __ne__(self, o): return True

    def __hash__(self): return id(self)

    def __float__(self):
        return float('nan') if self.kind == 'nan' else float('inf')

    def __repr__(self):
        return f"NonFinite({self.kind})"

    def __deepcopy__(self, memo): return self

    def __copy__(self): return self


def is_nonfinite(v) -> bool:
    """True when v is a NaN/inf marker (symbolic run) or a real nan/inf (concrete run)."""
    if isinstance(v, NonFinite):
        return True
    if isinstance(v, (Sym, SymBool)):
        return False
    try:
        return not math.isfinite(v)
    except (TypeError, OverflowError):
        return False


# --------------------------------------------------------------------------------------------
# lifting


def _is_np_number(x):
    try:
        import numpy as np
        return isinstance(x, np.generic)
    except ImportError:  # pragma: no cover
        return False


def lift(x):
    """python / Sym number -> z3 arithmetic term"""
    if isinstance(x, Sym):
        return x.t
    if isinstance(x, bool):
        return z3.IntVal(int(x))
    if isinstance(x, int):
        return z3.IntVal(x)
    if isinstance(x, Fraction):
        return z3.RealVal(x)
    if isinstance(x, float):
        if not math.isfinite(x):
            raise HarnessError(f"cannot lift non-finite float {x}")
        return z3.RealVal(Fraction(x))
    if _is_np_number(x):
        import numpy as np
        if isinstance(x, np.integer):
            return z3.IntVal(int(x))
        if isinstance(x, np.floating):
            return z3.RealVal(Fraction(float(x)))
        if isinstance(x, np.bool_):
            return z3.IntVal(int(x))
    if isinstance(x, z3.ArithRef):
        return x
    raise TypeError(f"cannot lift {type(x).__name__} to a symbolic number")


def _flavor_of(x):
    if isinstance(x, (Sym, NonFinite)):
        return x.flavor
    if _is_np_number(x):
        return 'np'
    return 'py'


def _npint_of(o):
    """(name, min, max) if o is a value of a NumPy integer dtype narrower than 64 bits (64-bit counters are assumed not to
    overflow: no stream is that long), 'weak' for Python ints, None for everything else (floats widen the result)"""
    if isinstance(o, Sym):
        if o.npint is not None:
            return o.npint
        return 'weak' if (o.flavor == 'py' and o.is_int) else None
    if isinstance(o, bool):
        return None
    if isinstance(o, int):
        return 'weak'
    if _is_np_number(o):
        import numpy as np
        if isinstance(o, np.integer) and o.dtype.itemsize < 8:
            ii = np.iinfo(o.dtype)
            return (o.dtype.name, int(ii.min), int(ii.max))
    return None


def _narrow_result(a, b):
    na, nb = _npint_of(a), _npint_of(b)
    if isinstance(na, tuple) and (nb == 'weak' or nb == na):
        return na
    if isinstance(nb, tuple) and na == 'weak':
        return nb
    return None


def _join_flavor(a, b):
    return 'np' if 'np' in (_flavor_of(a), _flavor_of(b)) else 'py'


def to_real(t):
    return z3.ToReal(t) if t.sort() == z3.IntSort() else t


def lift_bool(o):
    if isinstance(o, SymBool):
        return o.t
    if isinstance(o, z3.BoolRef):
        return o
    if isinstance(o, Sym):
        return o.t != 0
    return z3.BoolVal(bool(o))


# --------------------------------------------------------------------------------------------
# symbolic booleans and numbers


class SymBool:
    """Deferred symbolic truth value; ``bool()`` forks the path."""
    __slots__ = ('t', 'prob')

    def __init__(self, t, prob=None):
        self.t = t
        self.prob = prob  # probability of True (Fraction or z3 Real term) for uniform-draw tests

    def __bool__(self):
        return cur().branch(self.t, prob=self.prob)

    def __and__(self, o): return SymBool(z3.And(self.t, lift_bool(o)))
    __rand__ = __and__

    def __or__(self, o): return SymBool(z3.Or(self.t, lift_bool(o)))
    __ror__ = __or__

    def __invert__(self): return SymBool(z3.Not(self.t))

    def __eq__(self, o): return SymBool(self.t == lift_bool(o))

    def __ne__(self, o): return SymBool(self.t != lift_bool(o))

    def __hash__(self): raise TypeError("unhashable symbolic bool")

    def __repr__(self): return f"SymBool({self.t})"

    def __deepcopy__(self, memo): return self

    def __copy__(self): return self


class Sym:
    """Symbolic number.  z3 Int or Real term; flavour 'py' (python float/int) or 'np' (NumPy scalar)."""
    __slots__ = ('t', 'flavor', 'npint')
    __array_priority__ = 1000
    __array_ufunc__ = None  # make numpy defer to our reflected operators

    def __init__(self, t, flavor='py', npint=None):
        self.t = t
        self.flavor = flavor
        self.npint = npint      # (name, min, max) of a NARROW NumPy integer dtype this value lives in, else None

    # -- helpers
    def _w(self, t, o=None):
        return Sym(t, _join_flavor(self, o) if o is not None else self.flavor)

    @property
    def is_int(self):
        return self.t.sort() == z3.IntSort()

    def as_np(self):
        return Sym(self.t, 'np')

    def as_py(self):
        return Sym(self.t, 'py')

    def __deepcopy__(self, memo): return self

    def __copy__(self): return self

    def __hash__(self):
        raise TypeError("unhashable symbolic number (harness must keep keys concrete)")

    def __repr__(self):
        return f"Sym<{self.flavor}>({self.t})"

    def __format__(self, spec):
        return repr(self)

    # -- arithmetic
    def _bin(self, o, f, refl=False):
        if isinstance(o, NonFinite):
            return NonFinite(o.kind)
        try:
            ot = lift(o)
        except TypeError:
            return NotImplemented
        a, b = (ot, self.t) if refl else (self.t, ot)
        if a.sort() != b.sort():
            a, b = to_real(a), to_real(b)
        res = self._w(f(a, b), o)
        narrow = _narrow_result(self, o)
        if narrow is not None and res.is_int:
            # NEP 50: a Python int is "weak" - <narrow NumPy integer> op <Python int> stays in the narrow dtype and wraps
            # around silently (RuntimeWarning only).  The engine does not model the wrapped value; it demands that it cannot happen.
            res.npint = narrow
            env = cur()
            if getattr(env, 'mode', 'sym') == 'sym':
                env.claim('no_silent_integer_wraparound', z3.And(res.t >= narrow[1], res.t <= narrow[2]),
                          detail=f"arithmetic in NumPy dtype {narrow[0]} (a Python int operand does not widen it) can leave "
                                 f"[{narrow[1]}, {narrow[2]}] and wrap around silently")
        return res

    def __add__(self, o): return self._bin(o, lambda a, b: a + b)
    def __radd__(self, o): return self._bin(o, lambda a, b: a + b, True)
    def __sub__(self, o): return self._bin(o, lambda a, b: a - b)
    def __rsub__(self, o): return self._bin(o, lambda a, b: a - b, True)
    def __mul__(self, o): return self._bin(o, lambda a, b: a * b)
    def __rmul__(self, o): return self._bin(o, lambda a, b: a * b, True)
    def __neg__(self): return self._w(-self.t)
    def __pos__(self): return self

    def __abs__(self):
        return self._w(z3.If(self.t >= 0, self.t, -self.t))

    def _div(self, num, den, flavor):
        num, den = to_real(num), to_real(den)
        env = cur()
        if env.branch(den == 0):
            if flavor == 'py':
                raise ZeroDivisionError("division by zero (symbolic)")
            if env.branch(num == 0):
                return NonFinite('nan')
            return NonFinite('inf')
        return Sym(num / den, flavor)

    def __truediv__(self, o):
        if isinstance(o, NonFinite):
            return NonFinite('nan')
        try:
            ot = lift(o)
        except TypeError:
            return NotImplemented
        return self._div(self.t, ot, _join_flavor(self, o))

    def __rtruediv__(self, o):
        if isinstance(o, NonFinite):
            return NonFinite(o.kind)
        try:
            ot = lift(o)
        except TypeError:
            return NotImplemented
        return self._div(ot, self.t, _join_flavor(self, o))

    def _intdiv(self, a, b, flavor, want):
        env = cur()
        if a.sort() != z3.IntSort() or b.sort() != z3.IntSort():
            # float floor-division / modulo: q = floor(a / b), r = a - b q  (python: remainder has the sign of b)
            a, b = to_real(a), to_real(b)
            if env.branch(b == 0):
                if flavor == 'py':
                    raise ZeroDivisionError("float modulo / floor division by zero (symbolic)")
                return NonFinite('nan')
            q = z3.ToReal(z3.ToInt(a / b))
            return Sym(q if want == 'q' else a - b * q, flavor)
        if env.branch(b == 0):
            if flavor == 'py':
                raise ZeroDivisionError("integer division or modulo by zero (symbolic)")
            return Sym(z3.IntVal(0), flavor)  # numpy integer semantics
        # python floor semantics: z3 div/mod are Euclidean (remainder >= 0); equal for b > 0
        if env.branch(b > 0):
            q, r = a / b, a % b
        else:
            q0, r0 = a / b, a % b  # r0 >= 0
            q = z3.If(r0 == 0, q0, q0 - 1)
            r = z3.If(r0 == 0, r0, r0 + b)
        return Sym(q if want == 'q' else r, flavor)

    def __floordiv__(self, o): return self._intdiv(self.t, lift(o), _join_flavor(self, o), 'q')
    def __rfloordiv__(self, o): return self._intdiv(lift(o), self.t, _join_flavor(self, o), 'q')
    def __mod__(self, o): return self._intdiv(self.t, lift(o), _join_flavor(self, o), 'r')
    def __rmod__(self, o): return self._intdiv(lift(o), self.t, _join_flavor(self, o), 'r')

    def __pow__(self, o):
        env = cur()
        if isinstance(o, Sym):
            # symbolic exponent: concretise small non-negative integers by forking, else POW UF
            return env.sym_pow(self, o)
        if isinstance(o, bool):
            o = int(o)
        if isinstance(o, int) or (isinstance(o, float) and o.is_integer()) or \
                (isinstance(o, Fraction) and o.denominator == 1):
            n = int(o)
            if n >= 0:
                r = None
                for _ in range(n):
                    r = self.t if r is None else r * self.t
                if r is None:
                    r = z3.IntVal(1) if self.is_int else z3.RealVal(1)
                return self._w(r if isinstance(o, int) else to_real(r))
            return 1 / (self ** (-n))
        if o == 0.5:
            return env.sym_sqrt(self, negative='complex')
        raise HarnessError(f"unsupported exponent {o!r}")

    def __rpow__(self, o):
        return cur().sym_pow(o, self)

    # -- comparisons
    def _cmp(self, o, f):
        if isinstance(o, NonFinite):
            return False
        if isinstance(o, float) or _is_np_number(o):
            try:
                fo = float(o)
            except (TypeError, ValueError):
                fo = 0.0
            if fo != fo:                       # IEEE: every ordered comparison and == with NaN is False (!= handled in __ne__)
                return False
            if fo in (float('inf'), float('-inf')):
                big = z3.RealVal(1) if fo > 0 else z3.RealVal(-1)
                return bool(z3.is_true(z3.simplify(f(z3.RealVal(0), big))))
        try:
            ot = lift(o)
        except TypeError:
            return NotImplemented
        a, b = self.t, ot
        if a.sort() != b.sort():
            a, b = to_real(a), to_real(b)
        return SymBool(f(a, b))

    def __lt__(self, o): return self._cmp(o, lambda a, b: a < b)
    def __le__(self, o): return self._cmp(o, lambda a, b: a <= b)
    def __gt__(self, o): return self._cmp(o, lambda a, b: a > b)
    def __ge__(self, o): return self._cmp(o, lambda a, b: a >= b)

    def __eq__(self, o):
        r = self._cmp(o, lambda a, b: a == b)
        return False if r is NotImplemented else r

    def __ne__(self, o):
        if isinstance(o, float) and o != o:
            return True
        r = self._cmp(o, lambda a, b: a != b)
        return True if r is NotImplemented else r

    def __bool__(self):
        return cur().branch(self.t != 0)

    # -- conversions
    def __float__(self):
        raise HarnessError("float() reached C level on a symbolic number: a shim is missing")

    def __int__(self):
        """int(x): truncation toward zero; the (small) integer result is found by forking over the feasible values"""
        env = cur()
        if getattr(env, 'mode', 'sym') != 'sym':
            raise HarnessError("int() on a symbolic number outside a symbolic run")
        t = self.t
        tr = t if t.sort() == z3.IntSort() else z3.If(t >= 0, z3.ToInt(t), -z3.ToInt(-t))
        for c in list(range(0, 33)) + list(range(-1, -9, -1)):
            if env.branch(tr == c):
                return c
        raise HarnessError("int() of a symbolic number outside the modelled range -8..32")

    def __index__(self):
        return cur().concretize_index(self)

    def __round__(self, n=None):
        """round(x, n): the nearest multiple of 10^-n (ties arbitrary): a fresh integer k with |x - k 10^-n| <= 10^-n / 2.
        round(x) / round(x, None) gives the (symbolic) integer itself."""
        env = cur()
        if getattr(env, 'mode', 'sym') != 'sym':
            raise HarnessError("round() on a symbolic number outside a symbolic run")
        if self.is_int and (n is None or n >= 0):
            return self
        digits = 0 if n is None else int(n)
        scale = Fraction(10) ** digits
        k = z3.Int(env.fresh_name('rounded'))
        x = to_real(self.t)
        kr = z3.ToReal(k) / z3.RealVal(scale)
        half = z3.RealVal(Fraction(1, 2) / scale)
        env.pc.append(z3.And(x - kr <= half, kr - x <= half))
        return Sym(k, 'py') if n is None else Sym(kr, self.flavor)


# --------------------------------------------------------------------------------------------
# claim-building helpers usable in both environments


def _tol_eq(a, b, tol=1e-9):
    if is_nonfinite(a) or is_nonfinite(b):
        return False
    exact = (int, Fraction)
    if isinstance(a, exact) and isinstance(b, exact) and not isinstance(a, bool):
        return a == b
    fa, fb = float(a), float(b)
    return abs(fa - fb) <= tol * max(1.0, abs(fa), abs(fb))


def eq(a, b):
    """a == b as a claim: symbolic -> SymBool, concrete -> exact for rationals, 1e-9 for floats."""
    if isinstance(a, NonFinite) or isinstance(b, NonFinite):
        return False
    if isinstance(a, (Sym, SymBool)) or isinstance(b, (Sym, SymBool)):
        return a == b if isinstance(a, (Sym, SymBool)) else b == a
    if isinstance(a, bool) or isinstance(b, bool):
        return a == b
    try:
        return _tol_eq(a, b)
    except (TypeError, ValueError):
        return a == b


def le(a, b, slack=1e-9):
    if isinstance(a, NonFinite) or isinstance(b, NonFinite):
        return False
    if isinstance(a, Sym) or isinstance(b, Sym):
        return a <= b
    if isinstance(a, (int, Fraction)) and isinstance(b, (int, Fraction)):
        return a <= b
    return float(a) <= float(b) + slack * max(1.0, abs(float(a)), abs(float(b)))


def lt(a, b):
    if isinstance(a, NonFinite) or isinstance(b, NonFinite):
        return False
    return a < b


def _b(x):
    return lift_bool(x)


def _any_sym(xs):
    return any(isinstance(x, (SymBool, z3.BoolRef)) for x in xs)


def And(*xs):
    xs = [x for x in xs]
    if _any_sym(xs):
        return SymBool(z3.And(*[_b(x) for x in xs])) if xs else True
    return all(bool(x) for x in xs)


def Or(*xs):
    if _any_sym(xs):
        return SymBool(z3.Or(*[_b(x) for x in xs]))
    return any(bool(x) for x in xs)


def Not(x):
    if isinstance(x, (SymBool, z3.BoolRef)):
        return SymBool(z3.Not(_b(x)))
    return not bool(x)


def Implies(a, b):
    if _any_sym([a, b]):
        return SymBool(z3.Implies(_b(a), _b(b)))
    return (not bool(a)) or bool(b)


def ite(c, a, b):
    """value-level if-then-else without forking"""
    if isinstance(c, (SymBool, z3.BoolRef)):
        fl = _join_flavor(a, b)
        ta, tb = lift(a), lift(b)
        if ta.sort() != tb.sort():
            ta, tb = to_real(ta), to_real(tb)
        return Sym(z3.If(_b(c), ta, tb), fl)
    return a if c else b


def same_term(a, b) -> bool:
    """structural identity of two values (no solver): used for 'is literally the same stored value'"""
    if isinstance(a, Sym) and isinstance(b, Sym):
        return a.t.eq(b.t)
    if isinstance(a, Sym) or isinstance(b, Sym):
        return False
    ta, tb = getattr(a, '_tag', None), getattr(b, '_tag', None)
    if ta is not None or tb is not None:
        return ta == tb
    return a is b or (type(a) is type(b) and a == b)


# --------------------------------------------------------------------------------------------
# statistics


class Stats:
    FIELDS = ('paths', 'completed_paths', 'aborted_paths', 'queries', 'solver_s', 'unknown_feasibility',
              'obligations', 'discharged', 'refuted', 'inconclusive', 'vacuity_witnesses',
              'canaries', 'canaries_refuted', 'forks', 'max_depth', 'cache_hits', 'trivial_claims',
              'cvc5_checked', 'cvc5_agree', 'cvc5_unknown', 'cvc5_disagree', 'cvc5_s', 'unknown_retries')

    def __init__(self):
        for f in self.FIELDS:
            setattr(self, f, 0)
        self.solver_s = 0.0
        self.cvc5_s = 0.0

    def as_dict(self):
        return {f: getattr(self, f) for f in self.FIELDS}

    def add(self, other: dict):
        for f in self.FIELDS:
            if f == 'max_depth':
                self.max_depth = max(self.max_depth, other.get(f, 0))
            else:
                setattr(self, f, getattr(self, f) + other.get(f, 0))


# --------------------------------------------------------------------------------------------
# symbolic environment


class Failure:
    """A refuted obligation, with what is needed to replay it concretely."""

    def __init__(self, name, trace, model, claim_text, detail=None):
        self.name = name
        self.trace = trace          # full event trace of the path
        self.model = model          # z3 model (None for exception-type failures)
        self.claim_text = claim_text
        self.detail = detail


class SymEnv:
    mode = 'sym'

    def __init__(self, timeout_ms=60000, seed=0, max_paths=200000):
        self.timeout_ms = timeout_ms
        self.seed = seed
        self.max_paths = max_paths
        self.stats = Stats()
        self.failures = []          # list[Failure]
        self.inconclusive = []      # list[(name, text)]
        self.samples = []           # a few obligations written out
        self.trivial_samples = []
        self._witnessed = set()
        self.canary_seen = {}       # name -> refuted?
        self.path_results = []
        self._uf_cache = {}
        self._qcache = {}
        self._qkeep = []
        self._fresh = itertools.count()
        self.replay = []
        self.trace = []
        self.pc = []
        self.weight = Fraction(1)
        self.weight_terms = []
        self.draw_log = []
        self.sample_limit = 4
        self.notes = {}
        self.claim_ms = {}
        self._first_failure_t = None
        self._canary_query = False
        self._canary_pending = {}
        self.after_failure_s = 45
        self.wall_budget_s = None   # per configuration; the runner sets it (quick 600 s, thorough 4 h)
        self._t_start = None
        self.cross_limit = 0        # > 0: re-decide the first N obligations of every name with cvc5 (second solver)
        self._cross_count = {}

    # ---- path management -------------------------------------------------------------------
    def start_path(self, replay):
        _run_reset_hooks()
        self.replay = list(replay)
        self.trace = []
        self.pc = []
        self.weight = Fraction(1)
        self.weight_terms = []      # z3 Real terms multiplying the weight (symbolic probabilities)
        self.draw_log = []
        self._fresh = itertools.count()
        self.path_claims = 0
        self.stats.paths += 1
        if self.stats.paths > self.max_paths:
            raise PathLimit(f"more than {self.max_paths} paths")
        if self.wall_budget_s is not None:
            if self._t_start is None:
                self._t_start = time.time()
            elif time.time() - self._t_start > self.wall_budget_s:
                raise PathLimit(f"wall-clock budget of {self.wall_budget_s} s for one configuration used up after "
                                f"{self.stats.paths} paths (inconclusive, never a success)")
        if self.failures:
            # a broken tree can multiply the paths of a configuration; its verdict is settled by the first refutation, so the
            # exploration of this configuration stops a fixed time after it (never reached on a tree where the property holds)
            now = time.time()
            if self._first_failure_t is None:
                self._first_failure_t = now
            elif now - self._first_failure_t > self.after_failure_s:
                raise PathLimit(f"exploration of this configuration stopped {self.after_failure_s} s after its first refuted obligation")

    @staticmethod
    def next_replay(trace):
        t = list(trace)
        while t:
            kind, val, n = t[-1]
            if kind == 'D' and val is True:
                return t[:-1] + [('D', False, 2)]
            if kind == 'C' and val + 1 < n:
                return t[:-1] + [('C', val + 1, n)]
            t.pop()
        return None

    def fresh_name(self, stem):
        return f"{stem}!{next(self._fresh)}"

    # ---- solver ---------------------------------------------------------------------------
    def _check(self, *extra):
        """one solver query: pc /\\ extra.  Results are memoised per (pc, extra) - terms are hash-consed, so an
        identical query on another path (same decisions, same terms) is not sent twice."""
        key = (tuple(c.get_id() for c in self.pc), tuple(c.get_id() for c in extra))
        hit = self._qcache.get(key)
        if hit is not None:
            self.stats.cache_hits += 1
            return hit
        r = self._check_uncached(*extra)
        if len(self._qcache) < 400000:
            self._qcache[key] = r
            self._qkeep.append((list(self.pc), extra))   # keep the ASTs alive so ids are not recycled
        return r

    def _check_uncached(self, *extra):
        """one z3 query; an `unknown` (time-out of the nonlinear procedure) is retried with other solver seeds before it is
        accepted as inconclusive, so that verdicts do not depend on VERIF_SEED or on machine load"""
        seeds = [self.seed % (2 ** 31) if self.seed else 0] + [s_ for s_ in (0, 1, 17) if s_ != (self.seed % (2 ** 31) if self.seed else 0)]
        r, s = z3.unknown, None
        # once an obligation of this configuration has been refuted its verdict is settled: hard queries on a broken tree
        # get one short attempt instead of three long ones (never the case on a tree where the property holds)
        broken = bool(self.failures)
        # a canary is asked again on every later path until it is refuted once: one short attempt per path is enough
        quick = broken or self._canary_query
        for attempt, sd in enumerate(seeds[:1 if quick else 3]):
            s = z3.Solver()
            s.set("timeout", min(self.timeout_ms, 5000 if broken else _CANARY_MS) if quick else self.timeout_ms)
            if sd:
                s.set("random_seed", sd)
            for c in self.pc:
                s.add(c)
            for c in extra:
                s.add(c)
            t0 = time.perf_counter()
            r = s.check()
            self.stats.solver_s += time.perf_counter() - t0
            self.stats.queries += 1
            if r != z3.unknown:
                break
            self.stats.unknown_retries += 1
        return r, s

    def _feasible(self, cond):
        r, _ = self._check(cond)
        if r == z3.unknown:
            self.stats.unknown_feasibility += 1
            return True
        return r == z3.sat

    def _record(self, ev):
        self.trace.append(ev)
        if len(self.trace) > self.stats.max_depth:
            self.stats.max_depth = len(self.trace)

    def branch(self, cond, prob=None):
        if isinstance(cond, bool):
            return cond
        cond = z3.simplify(cond)
        if z3.is_true(cond):
            return True
        if z3.is_false(cond):
            return False
        i = len(self.trace)
        if i < len(self.replay):
            kind, val, n = self.replay[i]
            if kind == 'C':
                raise HarnessError("non-deterministic re-execution (expected branch, found choose)")
            self._record((kind, val, n))
            if kind == 'D':
                self.pc.append(cond if val else z3.Not(cond))
                self._apply_prob(prob, val)
            return val
        if not self._feasible(cond):
            self._record(('F', False, 1))
            return False
        if not self._feasible(z3.Not(cond)):
            self._record(('F', True, 1))
            return True
        self.stats.forks += 1
        self._record(('D', True, 2))
        self.pc.append(cond)
        self._apply_prob(prob, True)
        return True

    def _apply_prob(self, prob, val):
        if prob is None:
            return
        p = prob if val else (1 - prob)
        if isinstance(p, Sym):
            self.weight_terms.append(to_real(p.t))
        elif isinstance(p, z3.ExprRef):
            self.weight_terms.append(p)
        else:
            self.weight *= Fraction(p)

    def choose(self, n, label=None, weights=None):
        """n-way nondeterministic fork; exact weight 1/n (or weights[i]/sum)."""
        if n <= 0:
            raise ValueError("empty range for choose")
        i = len(self.trace)
        if i < len(self.replay):
            kind, val, m = self.replay[i]
            if kind != 'C' or m != n:
                raise HarnessError("non-deterministic re-execution (choose mismatch)")
        else:
            val = 0
            if n > 1:
                self.stats.forks += 1
        self._record(('C', val, n))
        if weights is None:
            self.weight *= Fraction(1, n)
        else:
            tot = sum(Fraction(w) for w in weights)
            self.weight *= Fraction(weights[val]) / tot
        self.draw_log.append((label, val, n))
        return val

    def assume(self, cond):
        if isinstance(cond, bool):
            if not cond:
                raise Abort("assumption false")
            return
        t = z3.simplify(_b(cond))
        if z3.is_true(t):
            return
        if z3.is_false(t) or not self._feasible(t):
            raise Abort("assumption infeasible")
        self.pc.append(t)

    # ---- fresh values ---------------------------------------------------------------------
    def real(self, name, flavor='py'):
        return Sym(z3.Real(name), flavor)

    def int(self, name, flavor='py'):
        return Sym(z3.Int(name), flavor)

    def boolean(self, name):
        """symbolic bool input: decided by forking right away (python code needs a real bool)"""
        return bool(SymBool(z3.Bool(name)))

    def const(self, v, flavor='py'):
        return Sym(lift(v), flavor)

    def uf(self, name, arity, int_args=(), int_result=False):
        """uninterpreted real-valued (or integer-valued) function of `arity` numeric arguments"""
        key = (name, arity, tuple(int_args), int_result)
        f = self._uf_cache.get(key)
        if f is None:
            sorts = [z3.IntSort() if i in int_args else z3.RealSort() for i in range(arity)]
            f = z3.Function(name, *sorts, z3.IntSort() if int_result else z3.RealSort())
            self._uf_cache[key] = f
        int_set = set(int_args)

        def call(*args, flavor='py'):
            ts = []
            for i, a in enumerate(args):
                t = lift(a)
                ts.append(t if i in int_set else to_real(t))
            return Sym(f(*ts), flavor)
        call.z3 = f
        return call

    # ---- special functions -----------------------------------------------------------------
    def sym_sqrt(self, x, negative='error'):
        """sqrt witness s >= 0, s*s == x.  negative: 'error' -> ValueError (math.sqrt), 'complex' -> HarnessError"""
        xt = to_real(lift(x))
        if self.branch(xt < 0):
            if negative == 'error':
                raise ValueError("math domain error")
            raise ComplexResult("fractional power of a negative number (python returns a complex)")
        # functional witness so that equal arguments give equal roots
        f = self._uf_cache.get('sqrt')
        if f is None:
            f = z3.Function('sqrt', z3.RealSort(), z3.RealSort())
            self._uf_cache['sqrt'] = f
        s = f(xt)
        self.pc.append(z3.And(s >= 0, s * s == xt))
        return Sym(s, _flavor_of(x))

    def sym_pow(self, base, expo):
        """base ** expo with a symbolic part: uninterpreted POW with sign axioms + exact small cases"""
        f = self._uf_cache.get('POW')
        if f is None:
            f = z3.Function('POW', z3.RealSort(), z3.RealSort(), z3.RealSort())
            self._uf_cache['POW'] = f
        bt, et = to_real(lift(base)), to_real(lift(expo))
        p = f(bt, et)
        self.pc.append(z3.And(
            z3.Implies(bt >= 0, p >= 0),
            z3.Implies(bt > 0, p > 0),
            z3.Implies(et == 0, p == 1),
            z3.Implies(et == 1, p == bt),
            z3.Implies(z3.And(bt >= 0, bt <= 1, et >= 0), p <= 1),
            z3.Implies(bt == 1, p == 1),
        ))
        return Sym(p, _join_flavor(base, expo))

    def concretize_index(self, x):
        """a symbolic integer used as a container index / range bound: fork over its feasible small values"""
        if not x.is_int:
            raise TypeError("'float' object cannot be interpreted as an integer")
        for c in list(range(0, 33)) + list(range(-1, -9, -1)):
            if self.branch(x.t == c):
                return c
        raise HarnessError("symbolic integer used as an index outside the modelled range -8..32")

    # ---- obligations -----------------------------------------------------------------------
    def claim(self, name, cond, detail=None):
        """proof obligation on the current path: pc => cond"""
        self.stats.obligations += 1
        self.path_claims += 1
        if isinstance(cond, bool):
            if cond:
                self.stats.discharged += 1
                self.stats.trivial_claims += 1
                self._sample(name, 'True (decided by execution)', 'discharged', 0.0)
                return True
            r, s = self._check()
            if r == z3.unsat:       # unreachable path
                self.stats.discharged += 1
                return True
            if r == z3.unknown:
                self.stats.inconclusive += 1
                self.inconclusive.append((name, 'False on a path of unknown feasibility'))
                return None
            self.stats.refuted += 1
            if len(self.failures) < 400:
                self.failures.append(Failure(name, list(self.trace), s.model(), 'False (decided by execution)', detail))
            return False
        t = z3.simplify(_b(cond))
        if z3.is_true(t):
            self.stats.discharged += 1
            self.stats.trivial_claims += 1
            self._sample(name, _b(cond), 'discharged (identical terms after simplification)', 0.0)
            return True
        t0 = time.perf_counter()
        r, s = self._check(z3.Not(t))
        ms = (time.perf_counter() - t0) * 1000
        self.claim_ms[name] = self.claim_ms.get(name, 0.0) + ms
        if self.cross_limit and r != z3.unknown:
            self._cross_check(name, z3.Not(t), str(r))
        if r == z3.unsat:
            self.stats.discharged += 1
            self._sample(name, t, 'discharged', ms)
            return True
        if r == z3.sat:
            self.stats.refuted += 1
            if len(self.failures) < 400:       # keep memory bounded when a broken tree refutes thousands of paths
                self.failures.append(Failure(name, list(self.trace), s.model(), _short(t), detail))
            self._sample(name, t, 'refuted', ms)
            return False
        self.stats.inconclusive += 1
        self.inconclusive.append((name, _short(t)))
        self._sample(name, t, 'unknown', ms)
        return None

    def global_claim(self, name, term, assumptions=()):
        """validity of a closed formula (no path condition): used after exploration, e.g. for sums over weighted paths"""
        self.stats.obligations += 1
        s = z3.Solver()
        s.set("timeout", self.timeout_ms)
        for a in assumptions:
            s.add(a)
        s.add(z3.Not(term))
        t0 = time.perf_counter()
        r = s.check()
        ms = (time.perf_counter() - t0) * 1000
        self.stats.solver_s += ms / 1000
        self.stats.queries += 1
        self.claim_ms[name] = self.claim_ms.get(name, 0.0) + ms
        verdict = {'unsat': 'discharged', 'sat': 'refuted'}.get(str(r), 'unknown')
        if self.cross_limit and str(r) != 'unknown':
            self._cross_check(name, z3.Not(term), str(r), assumptions=list(assumptions))
        if len(self.samples) < self.sample_limit + 2 and not any(x['obligation'] == name for x in self.samples):
            self.samples.append({'obligation': name, 'path_decisions': '(closed formula over all weighted paths)',
                                 'path_condition_size': len(assumptions), 'claim_smt': _short(term, 600),
                                 'verdict': verdict, 'ms': round(ms, 2)})
        if r == z3.unsat:
            self.stats.discharged += 1
            return True, None
        if r == z3.sat:
            self.stats.refuted += 1
            return False, s.model()
        self.stats.inconclusive += 1
        self.inconclusive.append((name, _short(term)))
        return None, None

    def _cross_check(self, name, negated, z3_verdict, assumptions=None):
        """second solver: the same query (SMT-LIB2 dump) decided by cvc5; a disagreement is a harness error"""
        base = name.split('[')[0].split('@')[0]
        n = self._cross_count.get(base, 0)
        if n >= self.cross_limit:
            return
        self._cross_count[base] = n + 1
        s = z3.Solver()
        for c in (self.pc if assumptions is None else assumptions):
            s.add(c)
        s.add(negated)
        txt = s.to_smt2()
        t0 = time.perf_counter()
        verdict = 'unknown'
        import os
        import subprocess
        import sys
        import tempfile
        fd, path = tempfile.mkstemp(suffix='.smt2', prefix='symx_')
        try:
            with os.fdopen(fd, 'w') as fh:
                fh.write(txt)
            driver = os.path.join(os.path.dirname(os.path.abspath(__file__)), 'cvc5_driver.py')
            pr = subprocess.run([sys.executable, driver, path, '10000'], capture_output=True, text=True, timeout=30)
            out = pr.stdout.strip().splitlines()
            if pr.returncode == 0 and out and out[-1] in ('sat', 'unsat', 'unknown'):
                verdict = out[-1]
            elif pr.returncode != 0:
                self.notes.setdefault('cvc5_errors', []).append(f"{name}: exit {pr.returncode}: {pr.stderr.strip()[-120:]}")
        except subprocess.TimeoutExpired:
            verdict = 'unknown'
        except Exception as e:  # noqa: BLE001
            self.notes.setdefault('cvc5_errors', []).append(f"{name}: {type(e).__name__}: {str(e)[:120]}")
        finally:
            try:
                os.unlink(path)
            except OSError:
                pass
        self.stats.cvc5_s += time.perf_counter() - t0
        self.stats.cvc5_checked += 1
        if verdict == 'unknown':
            self.stats.cvc5_unknown += 1
        elif verdict == z3_verdict:
            self.stats.cvc5_agree += 1
        else:
            self.stats.cvc5_disagree += 1
            self.inconclusive.append((name, f"solver disagreement: z3 {z3_verdict}, cvc5 {verdict}"))

    def canary(self, name, cond):
        """a deliberately wrong claim: must be refuted on at least one path (vacuity / oracle-strength guard)"""
        if self.canary_seen.get(name):
            return      # already refuted once in this configuration: the oracle is known to be sharp enough
        self.stats.canaries += 1
        if isinstance(cond, bool):
            refuted = not cond
        else:
            t0 = time.perf_counter()
            self._canary_query = True
            try:
                r, _ = self._check(z3.Not(_b(cond)))
            finally:
                self._canary_query = False
            self.claim_ms['canary:' + name] = self.claim_ms.get('canary:' + name, 0.0) + (time.perf_counter() - t0) * 1000
            refuted = (r == z3.sat)
            if r == z3.unknown and len(self._canary_pending.setdefault(name, [])) < 4:
                self._canary_pending[name].append((list(self.pc), z3.Not(_b(cond))))     # asked again with full effort at the end
        if refuted:
            self.stats.canaries_refuted += 1
        self.canary_seen[name] = self.canary_seen.get(name, False) or refuted

    def finish_canaries(self):
        """canaries whose short per-path attempts all came back unknown get the full procedure (three seeds, full time-out)
        on the recorded paths before they are reported as 'never refuted'"""
        for name, pending in self._canary_pending.items():
            if self.canary_seen.get(name):
                continue
            for pc, formula in pending:
                saved = self.pc
                self.pc = pc
                try:
                    r, _ = self._check_uncached(formula)
                finally:
                    self.pc = saved
                if r == z3.sat:
                    self.stats.canaries_refuted += 1
                    self.canary_seen[name] = True
                    break

    def witness(self):
        """reachability witness: the current path condition is satisfiable"""
        r, _ = self._check()
        if r == z3.sat:
            self.stats.vacuity_witnesses += 1
            return True
        if r == z3.unsat:
            raise Abort("path condition unsatisfiable")
        return None

    def fail(self, name, text, detail=None):
        """report an execution-level failure (unexpected exception, wrong structure) on this path"""
        return self.claim(name, False, detail=detail or text)

    def _sample(self, name, t, verdict, ms):
        """keep a few obligations written out for the evidence file; obligations that went to the solver are preferred"""
        solver_decided = not isinstance(t, str) and not str(verdict).startswith('discharged (identical')
        pool = self.samples if solver_decided else self.trivial_samples
        if len(pool) < self.sample_limit and not any(s['obligation'] == name for s in pool):
            pool.append({
                'obligation': name,
                'path_decisions': _trace_text(self.trace),
                'path_condition_size': len(self.pc),
                'claim_smt': _short(t, 600),
                'verdict': verdict,
                'decided_by': 'z3' if solver_decided else 'execution / term identity',
                'ms': round(ms, 2),
            })
        if solver_decided and verdict == 'discharged' and name not in self._witnessed:
            # vacuity guard: the first time an obligation name is discharged, its path condition must be satisfiable
            self._witnessed.add(name)
            r, _ = self._check()
            if r == z3.sat:
                self.stats.vacuity_witnesses += 1
            elif r == z3.unsat:
                self.inconclusive.append((name, 'vacuous: the path condition of a discharged obligation is unsatisfiable'))

    def path_weight(self):
        return self.weight, list(self.weight_terms)

    def smt2(self, claim):
        s = z3.Solver()
        for c in self.pc:
            s.add(c)
        s.add(z3.Not(_b(claim)))
        return s.to_smt2()


def _short(t, n=300):
    try:
        s = str(t).replace('\n', ' ')
    except RecursionError:
        return '<term too large to print>'
    s = ' '.join(s.split())
    return s if len(s) <= n else s[:n] + '...'


def _trace_text(trace):
    out = []
    for kind, val, n in trace:
        if kind == 'D':
            out.append('T' if val else 'F')
        elif kind == 'C':
            out.append(f"{val}/{n}")
    return ' '.join(out)


def explore(env: SymEnv, fn, *args, **kwargs):
    """Run fn(env, ...) on every path.  Returns list of per-path return values."""
    global CUR
    results = []
    replay = []
    prev = CUR
    CUR = env
    try:
        while replay is not None:
            env.start_path(replay)
            try:
                res = fn(env, *args, **kwargs)
                env.stats.completed_paths += 1
                results.append(res)
            except EndPath:
                env.stats.completed_paths += 1
                results.append(None)
            except Abort:
                env.stats.aborted_paths += 1
            replay = env.next_replay(env.trace)
    finally:
        CUR = prev
    return results


# --------------------------------------------------------------------------------------------
# concrete environment (replay)


def z3_value_to_py(v, numeric='fraction'):
    """z3 model value -> python number"""
    if z3.is_int_value(v):
        return v.as_long()
    if z3.is_rational_value(v):
        fr = Fraction(v.numerator_as_long(), v.denominator_as_long())
        return fr if numeric == 'fraction' else float(fr)
    if z3.is_algebraic_value(v):
        a = v.approx(30)
        return float(Fraction(a.numerator_as_long(), a.denominator_as_long()))
    if z3.is_true(v):
        return True
    if z3.is_false(v):
        return False
    raise HarnessError(f"cannot convert model value {v}")


class TaggedFraction(Fraction):
    """a concrete value that remembers which symbol it stands for (arithmetic yields plain Fractions)"""
    def __new__(cls, value, tag):
        self = super().__new__(cls, value)
        self._tag = tag
        return self

    def __deepcopy__(self, memo): return self

    def __copy__(self): return self

    def __reduce__(self): return (TaggedFraction, (Fraction(self.numerator, self.denominator), self._tag))


class TaggedFloat(float):
    def __new__(cls, value, tag):
        self = super().__new__(cls, value)
        self._tag = tag
        return self

    def __deepcopy__(self, memo): return self

    def __copy__(self): return self


class ConcEnv:
    """Concrete re-execution of a scenario with values from a z3 model or from a replay table."""
    mode = 'conc'

    def __init__(self, trace, model=None, table=None, numeric='fraction'):
        self.trace_in = [tuple(e) for e in trace]
        self.model = model
        self.table = table if table is not None else {'vars': {}, 'ufs': {}}
        self.numeric = numeric       # 'fraction' | 'float' | 'npfloat'
        self.choices = [e for e in self.trace_in if e[0] == 'C']
        self._ci = 0
        self.violations = []         # (name, detail)
        self.claims = 0
        self.assumption_breaks = []
        self._uf_cache = {}
        self.draw_log = []
        self.weight = Fraction(1)
        self.notes = {}
        self.stats = Stats()

    # values ------------------------------------------------------------------------------
    def _conv(self, v, flavor):
        if isinstance(v, str):
            v = Fraction(v)
        if flavor == 'np' or self.numeric == 'npfloat':
            import numpy as np
            return np.float64(float(v))
        if self.numeric == 'float' and not isinstance(v, int):
            return float(v)
        return v

    def _var(self, name, sort):
        tab = self.table['vars']
        if name in tab:
            v = tab[name]
            return Fraction(v) if isinstance(v, str) else v
        if self.model is None:
            v = 0
        else:
            c = z3.Int(name) if sort == 'int' else z3.Real(name)
            if False:
                pass
            else:
                v = z3_value_to_py(self.model.eval(c, model_completion=True))
        tab[name] = str(v) if isinstance(v, Fraction) else v
        return v

    def real(self, name, flavor='py'):
        v = self._conv(self._var(name, 'real'), flavor)
        if isinstance(v, Fraction):
            return TaggedFraction(v, name)
        if type(v) is float:
            return TaggedFloat(v, name)
        return v

    def int(self, name, flavor='py'):
        v = self._var(name, 'int')
        if flavor == 'np':
            import numpy as np
            return np.int64(v)
        return int(v)

    def boolean(self, name):
        tab = self.table['vars']
        if name in tab:
            return bool(tab[name])
        v = False
        if self.model is not None:
            v = bool(z3_value_to_py(self.model.eval(z3.Bool(name), model_completion=True)))
        tab[name] = v
        return v

    def const(self, v, flavor='py'):
        return self._conv(v, flavor) if not isinstance(v, int) or flavor == 'np' else v

    def uf(self, name, arity, int_args=(), int_result=False):
        int_set = set(int_args)
        key = (name, arity, tuple(int_args), int_result)
        f = None
        if self.model is not None:
            f = self._uf_cache.get(key)
            if f is None:
                sorts = [z3.IntSort() if i in int_set else z3.RealSort() for i in range(arity)]
                f = z3.Function(name, *sorts, z3.IntSort() if int_result else z3.RealSort())
                self._uf_cache[key] = f
        tab = self.table['ufs'].setdefault(name, {})

        def call(*args, flavor='py'):
            k = '|'.join(_key_num(a) for a in args)
            if k in tab:
                return int(Fraction(tab[k])) if int_result else self._conv(Fraction(tab[k]), flavor)
            if f is None:
                v = Fraction(0)
            else:
                zargs = []
                for i, a in enumerate(args):
                    fa = _to_fraction(a)
                    zargs.append(z3.IntVal(int(fa)) if i in int_set else z3.RealVal(fa))
                v = z3_value_to_py(self.model.eval(f(*zargs), model_completion=True))
                v = Fraction(v) if not isinstance(v, float) else Fraction(v).limit_denominator(10 ** 12)
            tab[k] = str(v)
            return int(v) if int_result else self._conv(v, flavor)
        return call

    # control -----------------------------------------------------------------------------
    def branch(self, cond, prob=None):
        return bool(cond)

    def choose(self, n, label=None, weights=None):
        if self._ci < len(self.choices):
            _, val, m = self.choices[self._ci]
            self._ci += 1
            if m != n:
                self.assumption_breaks.append(f"choose range changed: recorded {m}, now {n}")
                val = min(val, n - 1)
        else:
            val = 0
        self.draw_log.append((label, val, n))
        return val

    def assume(self, cond):
        if not bool(cond):
            self.assumption_breaks.append("assumption does not hold in concrete replay")
            raise Abort("assumption false in replay")

    def claim(self, name, cond, detail=None):
        self.claims += 1
        ok = bool(cond)
        if not ok:
            self.violations.append((name, detail))
        return ok

    def canary(self, name, cond):
        pass

    def witness(self):
        return True

    def fail(self, name, text, detail=None):
        return self.claim(name, False, detail=detail or text)

    def sym_sqrt(self, x, negative='error'):
        return math.sqrt(x)

    def sym_pow(self, b, e):
        return float(b) ** float(e)

    def path_weight(self):
        return self.weight, []

    def fresh_name(self, stem):
        self._fn = getattr(self, '_fn', itertools.count())
        return f"{stem}!{next(self._fn)}"


class ConcForkEnv(ConcEnv):
    """Concrete values (shared with a parent ConcEnv) + exhaustive forking over choose(): used by replays of
    distributional counterexamples, which must enumerate every random outcome of the real code with exact weights."""

    def __init__(self, parent):
        super().__init__([], model=parent.model, table=parent.table, numeric=parent.numeric)
        self._uf_cache = parent._uf_cache
        self.replay = []
        self.trace = []

    def start_path(self, replay):
        _run_reset_hooks()
        self.replay = list(replay)
        self.trace = []
        self.weight = Fraction(1)
        self.draw_log = []
        self.violations = []

    def choose(self, n, label=None, weights=None):
        if n <= 0:
            raise ValueError("empty range for choose")
        i = len(self.trace)
        val = self.replay[i][1] if i < len(self.replay) else 0
        self.trace.append(('C', val, n))
        if weights is None:
            self.weight *= Fraction(1, n)
        else:
            self.weight *= Fraction(weights[val]) / sum(Fraction(w) for w in weights)
        self.draw_log.append((label, val, n))
        return val


def explore_concrete(parent, fn, *args, max_paths=2000000, **kwargs):
    """run fn(fork_env, ...) for every outcome of its choose() calls; returns [(result, weight)]"""
    global CUR
    env = ConcForkEnv(parent)
    out = []
    replay = []
    prev = CUR
    CUR = env
    try:
        n = 0
        while replay is not None:
            env.start_path(replay)
            try:
                res = fn(env, *args, **kwargs)
                out.append((res, env.weight))
            except EndPath:
                out.append((None, env.weight))
            except Abort:
                pass
            parent.violations.extend(env.violations)
            replay = SymEnv.next_replay(env.trace)
            n += 1
            if n > max_paths:
                raise PathLimit("too many concrete paths")
    finally:
        CUR = prev
    return out


def _to_fraction(a):
    if isinstance(a, Fraction):
        return a
    if isinstance(a, bool):
        return Fraction(int(a))
    if isinstance(a, int):
        return Fraction(a)
    return Fraction(float(a))


def _key_num(a):
    return str(_to_fraction(a))


def run_concrete(env: ConcEnv, fn, *args, **kwargs):
    """Execute the scenario concretely.  Returns (violations, error_text)."""
    global CUR
    prev = CUR
    CUR = env
    _run_reset_hooks()
    try:
        try:
            fn(env, *args, **kwargs)
        except EndPath:
            return env.violations, None
        except Abort as e:
            return env.violations, f"aborted: {e}"
    finally:
        CUR = prev
    return env.violations, None
