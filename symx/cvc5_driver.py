"""Runs one SMT-LIB2 file through cvc5 (wheel) in its own process: prints sat / unsat / unknown.  A crash of the solver
then cannot take the checking process down; the caller treats anything but sat/unsat as unknown."""
import sys


def main(path, tlimit_ms):
    import cvc5
    slv = cvc5.Solver()
    slv.setOption('tlimit-per', str(tlimit_ms))
    slv.setLogic('ALL')
    parser = cvc5.InputParser(slv)
    parser.setFileInput(cvc5.InputLanguage.SMT_LIB_2_6, path)
    sm = parser.getSymbolManager()
    verdict = 'unknown'
    while True:
        cmd = parser.nextCommand()
        if cmd.isNull():
            break
        out = cmd.invoke(slv, sm).strip()
        if out in ('sat', 'unsat', 'unknown'):
            verdict = out
    print(verdict)


if __name__ == '__main__':
    main(sys.argv[1], int(sys.argv[2]))
