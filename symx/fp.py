"""FPSym - floating-point numbers under the standard model of IEEE-754 arithmetic (Higham):
every operation returns exact_result * (1 + delta) with a fresh |delta| <= u = 2^-53 (binary64, round to nearest, no
overflow / underflow).  The exactness rules x-0, 0+x, x*1, x/1, x-x, x*0 produce no delta.  The solver reasons over the
reals about ALL rounding outcomes at once."""
from fractions import Fraction

import z3

from .core import Sym, SymBool, NonFinite, lift, to_real, cur, HarnessError

U = Fraction(1, 2 ** 53)


def _is_const(t, v):
    t = z3.simplify(t)
    return z3.is_rational_value(t) and Fraction(t.numerator_as_long(), t.denominator_as_long()) == v or \
        (z3.is_int_value(t) and t.as_long() == v)


class FPSym(Sym):
    __slots__ = ()

    @staticmethod
    def _round(exact):
        env = cur()
        d = z3.Real(env.fresh_name('delta'))
        env.pc.append(z3.And(d >= -z3.RealVal(U), d <= z3.RealVal(U)))
        env.notes['roundings'] = env.notes.get('roundings', 0) + 1
        return exact * (1 + d)

    def _wrap(self, t, exact_op):
        return FPSym(to_real(t) if exact_op else self._round(to_real(t)), 'py')

    def _bin(self, o, f, refl=False):
        if isinstance(o, NonFinite):
            return NonFinite(o.kind)
        try:
            ot = to_real(lift(o))
        except TypeError:
            return NotImplemented
        st = to_real(self.t)
        a, b = (ot, st) if refl else (st, ot)
        probe = f(z3.RealVal(3), z3.RealVal(2))
        kind = {5: '+', 1: '-', 6: '*'}[z3.simplify(probe).numerator_as_long()]
        exact = False
        if kind in '+-' and (_is_const(a, 0) or _is_const(b, 0)):
            exact = True
        if kind == '-' and a.eq(b):
            return FPSym(z3.RealVal(0), 'py')
        if kind == '*' and (_is_const(a, 1) or _is_const(b, 1) or _is_const(a, 0) or _is_const(b, 0)):
            exact = True
        return self._wrap(f(a, b), exact)

    def __neg__(self):
        return FPSym(-self.t, 'py')

    def __abs__(self):
        return FPSym(z3.If(self.t >= 0, self.t, -self.t), 'py')

    def _div(self, num, den, flavor):
        num, den = to_real(num), to_real(den)
        env = cur()
        if env.branch(den == 0):
            raise ZeroDivisionError("float division by zero")
        if _is_const(den, 1) or _is_const(num, 0):
            return FPSym(num, 'py')
        return FPSym(self._round(num / den), 'py')

    def __truediv__(self, o):
        return self._div(self.t, lift(o), 'py')

    def __rtruediv__(self, o):
        return self._div(lift(o), self.t, 'py')

    def __pow__(self, o):
        if o == 2:
            return self * self
        raise HarnessError("FPSym power only modelled for **2")

    def as_np(self): return self

    def as_py(self): return self
