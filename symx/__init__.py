from .core import *  # noqa
from .core import (Sym, SymBool, NonFinite, SymEnv, ConcEnv, explore, run_concrete, Abort, EndPath, HarnessError,
                   Inconclusive, eq, le, lt, And, Or, Not, Implies, ite, is_nonfinite, same_term, Stats, lift, to_real)
from .core import ConcForkEnv, explore_concrete
from . import stubs, trace
