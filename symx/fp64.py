"""F64Sym - bit-precise IEEE-754 binary64 proxy numbers (z3 floating-point theory, round-to-nearest-even).

Used for the few obligations that are about the float RANGE (overflow to inf, 0*inf = nan, subnormals), which the real-
arithmetic proxies and the standard rounding model cannot see.  Only tiny kernels are tractable (a handful of operations)."""
import z3

from .core import SymBool, cur, HarnessError

F64 = z3.Float64()
RM = z3.RNE()


def _lift(o):
    if isinstance(o, F64Sym):
        return o.t
    if isinstance(o, bool):
        o = int(o)
    if isinstance(o, (int, float)):
        return z3.FPVal(float(o), F64)
    try:
        import numpy as np
        if isinstance(o, np.generic):
            return z3.FPVal(float(o), F64)
    except ImportError:  # pragma: no cover
        pass
    raise TypeError(f"cannot lift {type(o).__name__} to binary64")


class F64Sym:
    __slots__ = ('t', 'flavor')
    __array_ufunc__ = None

    def __init__(self, t, flavor='np'):
        self.t = t
        self.flavor = flavor      # 'np': x/0 gives inf/nan; 'py': raises ZeroDivisionError

    @staticmethod
    def var(name, flavor='np'):
        return F64Sym(z3.FP(name, F64), flavor)

    def _w(self, t):
        return F64Sym(t, self.flavor)

    def __add__(self, o): return self._w(z3.fpAdd(RM, self.t, _lift(o)))
    def __radd__(self, o): return self._w(z3.fpAdd(RM, _lift(o), self.t))
    def __sub__(self, o): return self._w(z3.fpSub(RM, self.t, _lift(o)))
    def __rsub__(self, o): return self._w(z3.fpSub(RM, _lift(o), self.t))
    def __mul__(self, o): return self._w(z3.fpMul(RM, self.t, _lift(o)))
    def __rmul__(self, o): return self._w(z3.fpMul(RM, _lift(o), self.t))
    def __neg__(self): return self._w(z3.fpNeg(self.t))
    def __pos__(self): return self
    def __abs__(self): return self._w(z3.fpAbs(self.t))

    def _div(self, a, b):
        if self.flavor == 'py' and cur().branch(z3.fpIsZero(b)):
            raise ZeroDivisionError("float division by zero")
        return self._w(z3.fpDiv(RM, a, b))

    def __truediv__(self, o): return self._div(self.t, _lift(o))
    def __rtruediv__(self, o): return self._div(_lift(o), self.t)

    def __lt__(self, o): return SymBool(z3.fpLT(self.t, _lift(o)))
    def __le__(self, o): return SymBool(z3.fpLEQ(self.t, _lift(o)))
    def __gt__(self, o): return SymBool(z3.fpGT(self.t, _lift(o)))
    def __ge__(self, o): return SymBool(z3.fpGEQ(self.t, _lift(o)))

    def __eq__(self, o):
        try:
            return SymBool(z3.fpEQ(self.t, _lift(o)))
        except TypeError:
            return False

    def __ne__(self, o):
        try:
            return SymBool(z3.Not(z3.fpEQ(self.t, _lift(o))))
        except TypeError:
            return True

    def __bool__(self):
        return cur().branch(z3.Not(z3.fpIsZero(self.t)))

    def __hash__(self): raise TypeError("unhashable symbolic float")
    def __float__(self): raise HarnessError("float() on a bit-precise symbolic float")
    def __repr__(self): return f"F64Sym({self.t})"
    def __deepcopy__(self, memo): return self
    def __copy__(self): return self

    # predicates for claims
    def is_finite(self):
        return SymBool(z3.And(z3.Not(z3.fpIsInf(self.t)), z3.Not(z3.fpIsNaN(self.t))))
