"""Blocks ``import torch`` (ixai treats it as optional): keeps worker start-up and fork cost small.
Harnesses that need torch (C14 dispatch) do not install the blocker."""
import importlib.abc
import sys


class _Block(importlib.abc.MetaPathFinder):
    def find_spec(self, name, path=None, target=None):
        if name == 'torch' or name.startswith('torch.'):
            raise ImportError("torch blocked by symx.notorch")
        return None


def install():
    if 'torch' in sys.modules:
        return False
    if not any(isinstance(f, _Block) for f in sys.meta_path):
        sys.meta_path.insert(0, _Block())
    return True
