"""Records which ixai code objects were executed (\"functions encoded\" is measured, not declared)."""
import sys

TOOL = 3
_seen = set()
_active = False
import os
REPO_PREFIX = os.environ.get('VERIF_REPO', '/repo').rstrip('/') + '/'


def _cb(code, offset):
    fn = code.co_filename
    if fn.startswith(REPO_PREFIX):
        _seen.add((fn[len(REPO_PREFIX):], code.co_qualname))
    return sys.monitoring.DISABLE


def start():
    global _active
    if _active:
        return
    mon = sys.monitoring
    try:
        mon.use_tool_id(TOOL, 'symx-trace')
    except ValueError:
        return
    mon.register_callback(TOOL, mon.events.PY_START, _cb)
    mon.set_events(TOOL, mon.events.PY_START)
    _active = True


def stop():
    global _active
    if not _active:
        return
    mon = sys.monitoring
    mon.set_events(TOOL, 0)
    mon.register_callback(TOOL, mon.events.PY_START, None)
    mon.free_tool_id(TOOL)
    _active = False


def functions():
    return sorted(f"{f}:{q}" for f, q in _seen if not q.startswith('<'))


def reset():
    _seen.clear()
    if _active:
        sys.monitoring.restart_events()
