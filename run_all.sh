#!/bin/bash
# development aid: run every registered check at a tier, print one line each
tier="${1:-quick}"; first="${2:-1}"
cd "$(dirname "$0")"
for i in $(seq -w $first 20); do
  id="C$i"
  s=$(date +%s)
  out=$(./check $id --tier $tier 2>&1); rc=$?
  e=$(( $(date +%s) - s ))
  echo "$id rc=$rc ${e}s $(echo "$out" | grep -E '^\[' | cut -c1-170)"
  echo "$out" | grep -E "VIOLATION|HARNESS|KNOWN-FINDING|NOTE:" | cut -c1-300 | head -5
done
