"""Engine validation (Serval-style): push the repository's own test inputs through the real classes once with plain
floats and once with symx proxies holding the same constants; the results must agree (exactly for containers, to 1e-9
for floats), including the exception type / NaN-ness of division by zero in both numeric flavours.  Also checks the
standard-model FP class against real binary64 arithmetic on random inputs (every real rounding must be admitted)."""
import math
import os
import random
import sys
import warnings
from fractions import Fraction

VERIF = os.path.dirname(os.path.dirname(os.path.abspath(__file__)))
sys.path.insert(0, VERIF)
warnings.simplefilter('ignore')
from symx import notorch  # noqa
notorch.install()
import numpy as np  # noqa
import z3  # noqa
from symx import core, SymEnv, Sym, NonFinite  # noqa
from symx.core import z3_value_to_py  # noqa
from symx.stubs import patched  # noqa
from symx.fp import FPSym, U  # noqa
from ixai.utils.tracker import WelfordTracker, ExponentialSmoothingTracker, SlidingWindowTracker, MultiValueTracker  # noqa
from ixai.storage import BatchStorage, IntervalStorage, SequenceStorage, GeometricReservoirStorage  # noqa

FAIL = []


def check(name, ok, detail=''):
    if not ok:
        FAIL.append(f"{name}: {detail}")
    print(('ok   ' if ok else 'FAIL ') + name + (f"  {detail}" if detail and not ok else ''))


def concrete(sym):
    """value of a constant symbolic term"""
    if isinstance(sym, NonFinite):
        return float('nan') if sym.kind == 'nan' else float('inf')
    if not isinstance(sym, Sym):
        return sym
    v = z3.simplify(sym.t)
    if not (z3.is_rational_value(v) or z3.is_int_value(v) or z3.is_algebraic_value(v)):
        s = z3.Solver()          # the term mentions a sqrt witness: evaluate it in a model of the path condition
        s.add(*core.CUR.pc)
        assert str(s.check()) == 'sat'
        v = s.model().eval(sym.t, model_completion=True)
    return float(z3_value_to_py(v))


def run_sym(fn):
    env = SymEnv()
    core.CUR = env
    env.start_path([])
    try:
        with patched(env):
            return fn(lambda x: Sym(core.lift(x)))
    finally:
        core.CUR = None


def main():
    # --- tests/test_tracker.py streams
    for stream_name, stream in (('1..1000', [float(i) for i in range(1, 1001)][:200]), ('zeros', [0.0] * 50)):
        t = WelfordTracker()
        for v in stream:
            t.update(v)
        ref = (t.mean, t.var, t.std, t.N)

        def f(mk):
            s = WelfordTracker()
            for v in stream:
                s.update(mk(v))
            return (concrete(s.mean), concrete(s.var), concrete(s.std), s.N if not isinstance(s.N, Sym) else concrete(s.N))
        got = run_sym(f)
        check(f"welford {stream_name}", all(abs(a - b) <= 1e-9 * max(1, abs(a)) for a, b in zip(ref, got)), f"{ref} vs {got}")
    for alpha in (0.1, 0.5, 0.9):
        stream = [float(i) for i in range(1, 60)]
        t = ExponentialSmoothingTracker(alpha)
        for v in stream:
            t.update(v)

        def f(mk):
            s = ExponentialSmoothingTracker(mk(alpha))
            for v in stream:
                s.update(mk(v))
            return concrete(s.get())
        got = run_sym(f)
        check(f"smoothing alpha={alpha}", abs(t.get() - got) <= 1e-9 * max(1, abs(got)), f"{t.get()} vs {got}")
    # --- sliding window against plain numpy
    for k in (1, 3, 5):
        vals = [float((7 * i) % 11) for i in range(14)]

        def f(mk):
            s = SlidingWindowTracker(k)
            out = []
            for v in vals:
                s.update(mk(v))
                out.append((concrete(s.mean), concrete(s.var), concrete(s.std)))
            return out
        got = run_sym(f)
        s = SlidingWindowTracker(k)
        ref = []
        for v in vals:
            s.update(v)
            ref.append((s.mean, s.var, s.std))
        check(f"sliding window k={k}", all(abs(a - b) < 1e-9 for r, g in zip(ref, got) for a, b in zip(r, g)))
    # --- tests/test_storage.py stream through the storages
    stream = [({'t': i}, i) for i in range(10)]
    for mkst in (lambda: BatchStorage(True), lambda: IntervalStorage(5, True), lambda: SequenceStorage(True),
                 lambda: GeometricReservoirStorage(3, constant_probability=1.0, store_targets=True)):
        random.seed(3)
        a = mkst()
        for x, y in stream:
            a.update(x, y)
        ref = ([r['t'] for r in a.get_data()[0]], list(a.get_data()[1]))
        random.seed(3)
        b = mkst()
        for x, y in stream:
            b.update({'t': x['t']}, y)
        got = ([r['t'] for r in b.get_data()[0]], list(b.get_data()[1]))
        check(f"storage {type(a).__name__}", ref == got)
    # --- division by zero in both flavours
    def fpy(mk):
        try:
            mk(1.0) / mk(0.0)
            return 'no exception'
        except ZeroDivisionError:
            return 'ZeroDivisionError'
    check('py flavour raises ZeroDivisionError', run_sym(fpy) == 'ZeroDivisionError')
    with np.errstate(all='ignore'):
        real = (np.float64(1.0) / np.float64(0.0), np.float64(0.0) / np.float64(0.0), np.float64(-2.0) / np.float64(0.0))

    def fnp(mk):
        a = Sym(core.lift(1.0), 'np') / Sym(core.lift(0.0), 'np')
        b = Sym(core.lift(0.0), 'np') / Sym(core.lift(0.0), 'np')
        c = Sym(core.lift(1.0), 'py') / Sym(core.lift(0.0), 'np')
        return a, b, c
    a, b, c = run_sym(fnp)
    check('np flavour yields inf/nan like NumPy', isinstance(a, NonFinite) and a.kind == 'inf' and math.isinf(real[0])
          and isinstance(b, NonFinite) and b.kind == 'nan' and math.isnan(real[1]) and isinstance(c, NonFinite))
    # --- MultiValueTracker zero-fill against floats
    ups = [{'a': 1.0, 'b': 2.0}, {'a': 3.0}, {'c': 5.0, 'b': -1.0}]
    m = MultiValueTracker(WelfordTracker())
    for u in ups:
        m.update(u)

    def fm(mk):
        s = MultiValueTracker(WelfordTracker())
        for u in ups:
            s.update({k: mk(v) for k, v in u.items()})
        return {k: concrete(v) for k, v in s.get().items()}
    got = run_sym(fm)
    check('multi value tracker', all(abs(got[k] - m.get()[k]) < 1e-12 for k in m.get()))
    # --- standard model admits every real binary64 rounding (random probes)
    rng = random.Random(5)
    ok = True
    for _ in range(2000):
        x, y = rng.uniform(-1e3, 1e3), rng.uniform(-1e3, 1e3)
        for op, exact in ((x + y, Fraction(x) + Fraction(y)), (x * y, Fraction(x) * Fraction(y)),
                          (x / y if y else 0.0, Fraction(x) / Fraction(y) if y else Fraction(0))):
            if exact != 0:
                delta = (Fraction(op) - exact) / exact
                ok = ok and abs(delta) <= U
    check('standard model |delta| <= 2^-53 admits real binary64 roundings', ok)
    print('engine validation:', 'FAILED' if FAIL else 'passed')
    return 1 if FAIL else 0


if __name__ == '__main__':
    sys.exit(main())
