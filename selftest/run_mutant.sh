#!/bin/bash
# development aid: apply a patch to /repo, run a quick check, always restore.  usage: run_mutant.sh <patch> <ID> [tier]
patch="$(readlink -f "$1")"; id="$2"; tier="${3:-quick}"
cd /repo || exit 2
if ! git diff --quiet; then echo "repo dirty"; exit 2; fi
git apply "$patch" || { echo "patch does not apply: $patch"; exit 2; }
cd /verif
./check "$id" --tier "$tier" --no-evidence 2>&1 | grep -E "^\[|VIOLATION|HARNESS|KNOWN" | head -8
rc=${PIPESTATUS[0]}
git -C /repo checkout -- .
echo "mutant $(basename "$patch") on $id -> exit $rc"
exit 0
