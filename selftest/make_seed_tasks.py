#!/usr/bin/env python3
"""Writes the task files of a wave of independent seeded changes (one sub-agent per property, each in its own scratch
worktree of /repo).  The agents see ONLY the property text, the one-line descriptions of earlier seeds for the same property
(so that they produce a different kind of change) and their worktree - nothing from /verif.
usage: make_seed_tasks.py <root-dir> [ids...]      (wave 5: three small classic-mistake regressions per property)"""
import glob
import json
import os
import subprocess
import sys

root = sys.argv[1]
style = 'classic'
ids = []
for a in sys.argv[2:]:
    if a.startswith('--style='):
        style = a.split('=', 1)[1]
    else:
        ids.append(a)
props = [json.loads(l) for l in open('/verif/properties.jsonl')]
os.makedirs(root, exist_ok=True)
for p in props:
    pid = p['id']
    if ids and pid not in ids:
        continue
    earlier = []
    for m in sorted(glob.glob(f'/verif/seeded/{pid}*/meta.json')):
        earlier.append(json.load(open(m))['change'])
    wt = f'{root}/{pid}'
    if not os.path.isdir(wt):
        subprocess.run(['git', '-C', '/repo', 'worktree', 'add', '-q', '--detach', wt, 'HEAD'], check=True)
    classic = """What is wanted this time are the CLASSIC small mistakes a maintainer makes while editing this code, one per change, for example: an off-by-one or a wrong comparison operator (< vs <=), a wrong variable / swapped arguments of the same type, a missing or misplaced copy, an update applied in the wrong order or one statement too early / too late, a wrong default or constant, a condition that is right for the common case and wrong for a boundary (empty, first, last, single element, equal values), a dropped term of a formula, a sign error, integer instead of true division, a missing normalisation. Each change is a few lines at most and must look like an honest edit, not sabotage."""
    shared = f"""What is wanted this time are regressions that enter through code the property's own files DEPEND ON rather than through those files themselves: at least TWO of your three changes must be made OUTSIDE the anchored files listed above - in a base class, a shared helper or utility, a validator, a wrapper, a tracker or storage the anchored code uses, a package `__init__`, a default argument or class attribute (look through {wt}/ixai/explainer/base.py, ixai/utils/validators/, ixai/utils/wrappers/, ixai/utils/tracker/, ixai/storage/, ixai/imputer/ and the package `__init__` files) - and still make the STATED property fail when observed through the public API of the anchored classes. The third change may be anywhere. Typical honest edits of this kind: a helper generalised for a new caller and now subtly different for the old one, a validator that normalises / wraps / copies its argument differently, a base-class default or attribute changed, a shared function made to return a view / generator / other container type instead of a list or dict, an added cache or early return in a utility, a changed exception type, a renamed keyword forwarded wrongly. Each change is a few lines at most and must look like an honest edit, not sabotage."""
    coop = f"""What is wanted this time are changes that need something SPECIFIC to manifest, of one of these two kinds (deliver one of each if you can): (a) TWO COOPERATING SITES - two small edits in different functions / classes / files that each look fine (and each, applied alone, leaves the property intact) but together break the stated property, e.g. a producer that now returns a view / alias / lazily evaluated object plus a consumer that now mutates or re-reads it, a flag or counter set in one place and interpreted with a slightly different meaning in another, a unit / sign / normalisation convention changed on one side of an interface and only half-adapted on the other; (b) a MULTI-STEP HISTORY - a change that is invisible for any single call and any fresh object and shows only after a particular sequence of public operations (e.g. update, then read, then update again; explain after a reset / re-configuration; the second object constructed in a process; a storage that has been full, then observed k more items; an interleaving of two explainers / trackers sharing a storage or a model). Each change is a few lines per site and must look like an honest edit, not sabotage. You have about 12 minutes in total: prefer two solid changes over three."""
    wanted = {'classic': classic, 'shared': shared, 'coop': coop}[style]
    prev = '\n'.join(f' ({i + 1}) "{c}"' for i, c in enumerate(earlier))
    text = f"""You are helping evaluate a verification framework by writing THREE small, independent, realistic regressions ("seeded bugs") for the Python library HammerLabML/iXAI (incremental PFI / SAGE feature importance for streaming models, with storages, imputers, running-statistic trackers and model wrappers).

Your private scratch git worktree of the library is {wt} . Work ONLY inside {wt} . Never read or write anything under /repo or /verif (they are off limits), and do not look at other directories under /tmp.

The semantic property each of your three changes must break:

{pid}: {p['title']}
STATEMENT: {p['statement']}
QUANTIFIED OVER: {p['quantifier']['text']}
CODE IT IS ANCHORED IN: {', '.join(p['anchors']['files'])}

Other engineers already seeded these bugs for the same property; yours must be of OTHER kinds (and your three must differ from each other: different code sites or different mechanisms):
{prev}

{wanted}

For EACH of the three changes k = 1, 2, 3:
 1. the library still imports and the existing test suite still passes exactly as before: run, from {wt},  `/venv/bin/python -m pytest -q -p no:cacheprovider --timeout=900 tests`  (before your change all 38 tests pass; that must stay so). Always run python from the directory {wt} so that `import ixai` resolves to the worktree (check with `/venv/bin/python -c "import ixai; print(ixai.__file__)"`).
 2. the change must genuinely violate the property as stated (through the public API), but NOT on every call in every configuration: it needs some condition to show (a boundary, a configuration, an order of operations, a value relation, a random outcome, a second call ...). State that condition.
 3. a demonstration: a small standalone script {wt}/_seed<k>/demo.py (plain python, run as `/venv/bin/python _seed<k>/demo.py` from {wt}, exit code 0 = property holds, exit code 1 = property violated) that FAILS (exit 1) with change k applied alone and PASSES (exit 0) on the unchanged code. The demo must use only the public API of the library (plus standard `random` / `numpy.random` seeding, or a scripted replacement of the `random` module functions if the property is about random outcomes) and be deterministic. A script run as `python _seed<k>/demo.py` has `_seed<k>/` (not the cwd) first on sys.path, so the demo must insert its parent directory (the worktree root) at the front of sys.path before `import ixai`, and print `ixai.__file__`.

Work on one change at a time: make change k, save `git diff -- ixai > _seed<k>/patch.diff`, verify points 1-3 with the change applied, then remove it again with `git apply -R _seed<k>/patch.diff` (and verify the demo passes on the clean tree) before starting the next one. NEVER use `git stash` (the stash is shared between worktrees and other people are working in sibling worktrees). Each patch must apply on its own to the unchanged code.

Deliver, inside {wt}/_seed1/, _seed2/, _seed3/ :
 - patch.diff   : output of `git diff -- ixai` for that change alone (library files only)
 - demo.py      : the demonstration for that change
 - notes.md     : 3-6 lines: what the change is, why it breaks the property, and exactly what it needs in order to manifest.
Leave the worktree CLEAN at the end (no change applied). In your final answer give, for each change, one line describing it and the outcome of each verification (test counts with the change; demo exit codes with and without the change). If you cannot find three, deliver as many as you can.
"""
    open(f'{root}/TASK_{pid}.md', 'w').write(text)
    print('wrote', f'{root}/TASK_{pid}.md', len(earlier), 'earlier seeds')
