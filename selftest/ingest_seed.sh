#!/bin/bash
# ingest_seed.sh <ID> [name] [subdir]: validate a sub-agent's seeded change in a fresh scratch worktree (patch applies, tests as baseline,
# demo fails with / passes without), then store it under /verif/seeded/<name>/.
id="$1"; name="${2:-$1}"
src=${SEED_ROOT:-/tmp/seed}/$id/${3:-_seed}
[ -f "$src/patch.diff" ] && [ -f "$src/demo.py" ] || { echo "missing files in $src"; exit 2; }
wt=/tmp/seedcheck_$name
git -C /repo worktree remove --force "$wt" 2>/dev/null; rm -rf "$wt"
git -C /repo worktree add -q --detach "$wt" HEAD || exit 2
mkdir -p "$wt/_seed"; cp "$src/demo.py" "$wt/_seed/demo.py"
cd "$wt"
/venv/bin/python _seed/demo.py >/tmp/seedcheck_$name.clean.log 2>&1; clean=$?
git apply "$src/patch.diff" || { echo "PATCH DOES NOT APPLY"; cd /; git -C /repo worktree remove --force "$wt"; exit 2; }
/venv/bin/python _seed/demo.py >/tmp/seedcheck_$name.mut.log 2>&1; mut=$?
tests=$(/venv/bin/python -m pytest -q -p no:cacheprovider --timeout=900 tests 2>&1 | tail -1)
cd /; git -C /repo worktree remove --force "$wt"
echo "$name: demo clean=$clean mutated=$mut tests: $tests"
if [ "$clean" = 0 ] && [ "$mut" = 1 ] && echo "$tests" | grep -q -E "^38 passed|2 failed, 36 passed"; then
  mkdir -p /verif/seeded/$name
  cp "$src/patch.diff" "$src/demo.py" /verif/seeded/$name/
  [ -f "$src/notes.md" ] && cp "$src/notes.md" /verif/seeded/$name/
  echo "$name: VALID, stored"
else
  echo "$name: NOT VALID"; tail -3 /tmp/seedcheck_$name.mut.log
fi
