#!/usr/bin/env python3
"""For a seeded change that its own property's check does not report: run the checks of every property ANCHORED in a file the
patch touches (on a scratch worktree), and print their exit codes.  usage: cross_check.py <seed-name> [more-check-ids...]"""
import json
import os
import re
import subprocess
import sys

name = sys.argv[1]
extra = sys.argv[2:]
patch = f'/verif/seeded/{name}/patch.diff'
files = re.findall(r'^\+\+\+ b/(\S+)', open(patch).read(), re.M)
props = [json.loads(l) for l in open('/verif/properties.jsonl')]
ids = [p['id'] for p in props if any(f in p['anchors']['files'] for f in files)]
ids = [i for i in dict.fromkeys(ids + extra) if i != name[:3]]
wt = f'/tmp/repo_cross.{os.getpid()}'
subprocess.run(['git', '-C', '/repo', 'worktree', 'add', '-q', '--detach', wt, 'HEAD'], check=True)
try:
    subprocess.run(['git', '-C', wt, 'apply', patch], check=True)
    out = []
    for i in ids:
        env = dict(os.environ, VERIF_REPO=wt, VERIF_CONFIG_BUDGET_S='150')
        r = subprocess.run(['/verif/check', i, '--tier', 'quick', '--no-evidence'], env=env, capture_output=True, text=True, timeout=1800)
        out.append(f"{i}={r.returncode}")
    print(name, ','.join(files), ' '.join(out) or '(no other property is anchored in these files)')
finally:
    subprocess.run(['git', '-C', '/repo', 'worktree', 'remove', '--force', wt])
