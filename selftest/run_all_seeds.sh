#!/bin/bash
# Regression over every kept seeded change: apply it to a scratch copy of /repo (HEAD), run the quick check of its
# property against that copy (VERIF_REPO), remove the copy.  /repo itself is not touched.
# usage: selftest/run_all_seeds.sh [name-glob]     output: one line per seed "name property exit-code"
cd /verif
W=/tmp/repo_reg.$$
rm -rf "$W"; git -C /repo worktree prune; git -C /repo worktree add --detach "$W" HEAD >/dev/null 2>&1 || exit 2
for d in seeded/${1:-*}/; do
  name=$(basename "$d")
  pid=${name:0:3}
  prop=$(python3 -c "import json,sys; m=json.load(open('$d/meta.json')); print(m.get('caught_by_check', m.get('property','$pid')))" 2>/dev/null || echo "$pid")
  patch="/verif/$d/patch.diff"
  [ -f "/verif/$d/patch_ported.diff" ] && patch="/verif/$d/patch_ported.diff"
  git -C "$W" checkout -q -- . ; git -C "$W" apply "$patch" || { echo "$name $prop APPLY-FAILED"; continue; }
  VERIF_REPO="$W" VERIF_CONFIG_BUDGET_S=150 timeout 1800 ./check "$prop" --tier quick --no-evidence > /tmp/seedrun.$$ 2>&1; rc=$?
  echo "$name $prop rc=$rc $(grep -c '^VIOLATION' /tmp/seedrun.$$) violation lines $(grep -m1 -o 'ixai from.*' /tmp/seedrun.$$)"
done
git -C /repo worktree remove --force "$W"; rm -f /tmp/seedrun.$$
