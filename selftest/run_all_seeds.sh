#!/bin/bash
# Regression over every kept seeded change: apply to /repo, run the quick check of its property, restore.
# usage: selftest/run_all_seeds.sh [name-glob]     output: one line per seed "name property exit-code"
cd /verif
for d in seeded/${1:-*}/; do
  name=$(basename "$d")
  pid=${name:0:3}
  prop=$(python3 -c "import json,sys; m=json.load(open('$d/meta.json')); print(m.get('caught_by_check', m.get('property','$pid')))" 2>/dev/null || echo "$pid")
  patch="/verif/$d/patch.diff"
  [ -f "/verif/$d/patch_ported.diff" ] && patch="/verif/$d/patch_ported.diff"
  git -C /repo checkout -- . ; git -C /repo apply "$patch" || { echo "$name $prop APPLY-FAILED"; continue; }
  timeout 1800 ./check "$prop" --tier quick --no-evidence > /tmp/seedrun.$$ 2>&1; rc=$?
  git -C /repo checkout -- .
  echo "$name $prop rc=$rc $(grep -c '^VIOLATION' /tmp/seedrun.$$) violation lines"
done
rm -f /tmp/seedrun.$$
