#!/bin/bash
# seed_vs_check.sh <seed-name> <check-id> [extra ./check args]: apply seeded/<seed> to a scratch copy of /repo, run the quick check
# of <check-id> against it (VERIF_REPO), remove the copy.  /repo is not touched.
name="$1"; id="$2"; shift 2
W=/tmp/repo_svc.$name.$id.$$
git -C /repo worktree add -q --detach "$W" HEAD || exit 2
git -C "$W" apply /verif/seeded/$name/patch.diff || { git -C /repo worktree remove --force "$W"; exit 2; }
VERIF_REPO="$W" VERIF_CONFIG_BUDGET_S=150 timeout 1500 /verif/check "$id" --tier quick --no-evidence "$@" > /tmp/svc.$name.$id.log 2>&1; rc=$?
echo "SVC $name check=$id rc=$rc $(grep -m1 '^VIOLATION' /tmp/svc.$name.$id.log) $(grep -m1 -o 'REFUTED[^:]*:[^:]*' /tmp/svc.$name.$id.log)"
git -C /repo worktree remove --force "$W"
