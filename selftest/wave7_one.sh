#!/bin/bash
# wave7_one.sh <ID>: ingest the deliveries of one seventh-wave sub-agent (/tmp/seed7/<ID>/_seed1.._seed3) as seeded/<ID>g<k>,
# run the quick check of the property (and of the properties owning the touched files) on a scratch copy with the change applied.
id="$1"
for k in 1 2 3; do
  [ -f /tmp/seed7/$id/_seed$k/patch.diff ] || continue
  name=${id}g$k
  SEED_ROOT=/tmp/seed7 /verif/selftest/ingest_seed.sh $id $name _seed$k | tail -2
  [ -d /verif/seeded/$name ] || continue
  W=/tmp/repo_w7.$name
  git -C /repo worktree remove --force "$W" 2>/dev/null; rm -rf "$W"
  git -C /repo worktree add -q --detach "$W" HEAD || continue
  git -C "$W" apply /verif/seeded/$name/patch.diff
  VERIF_REPO="$W" VERIF_CONFIG_BUDGET_S=150 timeout 1500 /verif/check $id --tier quick --no-evidence > /tmp/w7.$name.log 2>&1; rc=$?
  echo "RESULT $name own=$id rc=$rc $(grep -m2 '^VIOLATION' /tmp/w7.$name.log | tr '\n' ' ')"
  git -C /repo worktree remove --force "$W"
done
